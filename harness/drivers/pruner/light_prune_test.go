package pruner_driver

import (
	"context"
	"errors"
	"fmt"
	"sync"
	"testing"
	"time"

	"github.com/ipfs/boxo/blockstore"
	"github.com/ipfs/boxo/exchange"
	blocks "github.com/ipfs/go-block-format"
	"github.com/ipfs/go-cid"
	"github.com/ipfs/go-datastore"
	dssync "github.com/ipfs/go-datastore/sync"

	"github.com/celestiaorg/celestia-node/pruner"
	"github.com/celestiaorg/celestia-node/share/availability/light"
	"github.com/celestiaorg/celestia-node/share/eds"
	"github.com/celestiaorg/celestia-node/share/shwap/p2p/bitswap"
	"github.com/celestiaorg/celestia-node/store"

	"verifharness/square"
	"verifharness/vh"
)

// Part 3: the light node's Pruner -- light.ShareAvailability.Prune ("removes ... all of it", "or is recorded as
// failed and retried").
//
// A real block is sampled through the real light availability with the real bitswap.Getter, which puts every
// sample it fetched into the node's blockstore (the exchange under it is an in-process one that serves the
// honest blocks of the square and runs the verifying hash, as the Bitswap client does). Then the block is
// pruned with a blockstore whose DeleteBlock fails once at position k, for every k, and with two failures;
// Prune is repeated -- as pruner.Service does with a failed height -- until it returns nil. Oracle: when Prune
// says nil, no sample block and no sampling result of that block is left. The same through a real
// pruner.Service (first cycle records the height as failed, the next one retries it).

const sigLightLeft = "C14/light/prune-reported-success-with-samples-left"

type oneBlock struct {
	h   uint64
	acc eds.AccessorStreamer
}

func (g oneBlock) GetByHeight(_ context.Context, h uint64) (eds.AccessorStreamer, error) {
	if h != g.h {
		return nil, store.ErrNotFound
	}
	return g.acc, nil
}
func (g oneBlock) HasByHeight(_ context.Context, h uint64) (bool, error) { return h == g.h, nil }

// honestExchange stands where the Bitswap client stands: every wanted CID is answered with the honest block,
// after the bytes were hashed under the wanted CID's prefix (which runs the repository's verifying multihash
// and fills the requester's container), exactly what the client does with an incoming block.
type honestExchange struct{ srv *bitswap.Blockstore }

func (e *honestExchange) GetBlock(ctx context.Context, c cid.Cid) (blocks.Block, error) {
	ch, err := e.GetBlocks(ctx, []cid.Cid{c})
	if err != nil {
		return nil, err
	}
	select {
	case b, ok := <-ch:
		if !ok {
			return nil, errors.New("verif: block not served")
		}
		return b, nil
	case <-ctx.Done():
		return nil, ctx.Err()
	}
}

func (e *honestExchange) GetBlocks(ctx context.Context, cids []cid.Cid) (<-chan blocks.Block, error) {
	ch := make(chan blocks.Block, len(cids))
	go func() {
		defer close(ch)
		for _, want := range cids {
			hb, err := e.srv.Get(ctx, want)
			if err != nil {
				continue
			}
			got, err := want.Prefix().Sum(hb.RawData())
			if err != nil || !got.Equals(want) {
				continue
			}
			blk, err := blocks.NewBlockWithCid(hb.RawData(), want)
			if err != nil {
				continue
			}
			ch <- blk
		}
	}()
	return ch, nil
}

func (e *honestExchange) NotifyNewBlocks(context.Context, ...blocks.Block) error { return nil }
func (e *honestExchange) NewSession(context.Context) exchange.Fetcher            { return e }
func (e *honestExchange) Close() error                                           { return nil }

// flakyBS fails the scripted DeleteBlock calls (1-based positions over the life of the wrapper) once each.
type flakyBS struct {
	blockstore.Blockstore
	mu     sync.Mutex
	n      int
	failAt map[int]bool
	failed int
}

var errDelete = errors.New("verif: transient blockstore error")

func (b *flakyBS) DeleteBlock(ctx context.Context, c cid.Cid) error {
	b.mu.Lock()
	b.n++
	fail := b.failAt[b.n]
	if fail {
		b.failed++
	}
	b.mu.Unlock()
	if fail {
		return errDelete
	}
	return b.Blockstore.DeleteBlock(ctx, c)
}

func countBlocks(ctx context.Context, bs blockstore.Blockstore) (int, error) {
	ch, err := bs.AllKeysChan(ctx)
	if err != nil {
		return 0, err
	}
	n := 0
	for range ch {
		n++
	}
	return n, nil
}

type lightEnv struct {
	sq      *square.Square
	h       uint64
	results datastore.Batching // sampling results
	bsds    datastore.Batching
	bs      blockstore.Blockstore
	flaky   *flakyBS
	getter  *bitswap.Getter
	avail   *light.ShareAvailability
	samples int
}

func (e *lightEnv) resultLeft(ctx context.Context) (bool, error) {
	return e.results.Has(ctx, datastore.NewKey("/sampling_result/"+e.sq.Roots.String()))
}

// newLightEnv samples the block; afterwards `samples` sample blocks and one sampling result are stored.
func newLightEnv(ctx context.Context, sq *square.Square, h uint64, amount int, failAt map[int]bool) (*lightEnv, error) {
	e := &lightEnv{sq: sq, h: h}
	e.results = dssync.MutexWrap(datastore.NewMapDatastore())
	e.bsds = dssync.MutexWrap(datastore.NewMapDatastore())
	e.bs = blockstore.NewBlockstore(e.bsds)
	e.flaky = &flakyBS{Blockstore: e.bs, failAt: failAt}
	ex := &honestExchange{srv: &bitswap.Blockstore{Getter: oneBlock{h: h, acc: sq.Acc}}}
	e.getter = bitswap.NewGetter(ex, e.bs, 0)
	e.getter.Start()
	e.avail = light.NewShareAvailability(e.getter, e.results, e.flaky, light.WithSampleAmount(uint(amount)))
	eh := mkHeader(h, time.Now().Add(-time.Hour)) // inside the sampling window (wall clock)
	eh.DAH = sq.Roots
	eh.DataHash = sq.Roots.Hash()
	if err := e.avail.SharesAvailable(ctx, eh); err != nil {
		return nil, fmt.Errorf("SharesAvailable: %w", err)
	}
	if err := e.avail.Close(ctx); err != nil { // flush the batched sampling result
		return nil, err
	}
	n, err := countBlocks(ctx, e.bs)
	if err != nil {
		return nil, err
	}
	e.samples = n
	if left, _ := e.resultLeft(ctx); !left || n != amount {
		return nil, fmt.Errorf("after sampling: %d sample blocks (want %d), sampling result stored=%v", n, amount, left)
	}
	return e, nil
}

func lightPrune(t *testing.T, rep *vh.Report) {
	ctx, cancel := context.WithTimeout(context.Background(), 5*time.Minute)
	defer cancel()
	const amount = 8
	sq, err := square.Build(layoutFor(4, vh.Seed(), 7), vh.Seed()*1000+77)
	if err != nil {
		t.Fatalf("square: %v", err)
	}
	const h = uint64(2)

	scripts := []map[int]bool{{}}
	for k := 1; k <= amount; k++ {
		scripts = append(scripts, map[int]bool{k: true})
	}
	// two failures: in one attempt, and one in the first attempt plus one in the retry
	scripts = append(scripts, map[int]bool{2: true, 5: true}, map[int]bool{3: true, amount + 2: true}, map[int]bool{1: true, 2: true, 3: true})

	for _, failAt := range scripts {
		e, err := newLightEnv(ctx, sq, h, amount, failAt)
		if err != nil {
			rep.Inconclusivef("light node: %v", err)
			return
		}
		eh := mkHeader(h, time.Now().Add(-time.Hour))
		eh.DAH, eh.DataHash = sq.Roots, sq.Roots.Hash()
		attempts, errs := 0, 0
		for {
			attempts++
			perr := e.avail.Prune(ctx, eh)
			_ = e.avail.Close(ctx) // flush batched deletions of the sampling result
			left, cerr := countBlocks(ctx, e.bs)
			res, rerr := e.resultLeft(ctx)
			if cerr != nil || rerr != nil {
				rep.Inconclusivef("light node: reading back: %v %v", cerr, rerr)
				break
			}
			if perr == nil {
				if left > 0 || res {
					rep.Violate(sigLightLeft, fmt.Sprintf("light node: DeleteBlock failures at positions %v; Prune attempt %d returned nil "+
						"(the pruner takes the height off the failed set) while %d of %d sample blocks are still in the blockstore and the "+
						"sampling result is stored=%v: nothing references the samples any more, they are never removed",
						keysOf(failAt), attempts, left, e.samples, res),
						map[string]any{"fail_at": keysOf(failAt), "attempt": attempts, "left": left, "result_left": res})
				}
				break
			}
			errs++
			if attempts > len(failAt)+3 {
				rep.Inconclusivef("light node: Prune keeps failing after %d attempts with failures only at %v: %v", attempts, keysOf(failAt), perr)
				break
			}
		}
		if errs == 0 && len(failAt) > 0 && e.flaky.failed > 0 {
			rep.Violate(sigLightLeft, fmt.Sprintf("light node: a DeleteBlock failure (positions %v) was not reported by Prune", keysOf(failAt)), nil)
		}
		e.getter.Stop()
		rep.Count("light_prune_scripts", 1)
		rep.Count("light_prune_attempts", int64(attempts))
		rep.Count("light_delete_failures", int64(e.flaky.failed))
	}

	// ---- the same through a real pruner.Service: cycle 1 records the height as failed, cycle 2 retries it
	e, err := newLightEnv(ctx, sq, h, amount, map[int]bool{4: true})
	if err != nil {
		rep.Inconclusivef("light node: %v", err)
		return
	}
	defer e.getter.Stop()
	hs := newHStore()
	now := time.Now()
	for i, tm := range []time.Time{now.Add(-2 * time.Hour), now.Add(-time.Hour), now.Add(9 * 24 * time.Hour), now.Add(9*24*time.Hour + time.Minute)} {
		eh := mkHeader(uint64(i+1), tm)
		if uint64(i+1) == h {
			eh.DAH, eh.DataHash = sq.Roots, sq.Roots.Hash()
		}
		_ = hs.Append(ctx, eh)
	}
	stub := &stubPruner{script: map[uint64][]bool{}, count: map[uint64]int{}, st: hs, inner: e.avail}
	old := pruner.VerifSetBatchCap(3)
	defer pruner.VerifSetBatchCap(old)
	svc, err := pruner.NewService(stub, 7*24*time.Hour, hs, dssync.MutexWrap(datastore.NewMapDatastore()), time.Hour,
		pruner.WithPruneCycle(24*time.Hour))
	if err != nil {
		rep.Inconclusivef("light node: NewService: %v", err)
		return
	}
	if err := svc.Start(tagged("drv")); err != nil {
		rep.Inconclusivef("light node: Start: %v", err)
		return
	}
	select {
	case <-hs.cycleBegan:
	case <-time.After(30 * time.Second):
		rep.Inconclusivef("light node: first cycle never began")
		return
	}
	_, _ = svc.LastPruned(tagged("drv"))
	_, failed1, _ := svc.VerifCheckpoint()
	svc.VerifCycle()
	svc.VerifCycle()
	_, failed2, _ := svc.VerifCheckpoint()
	_ = e.avail.Close(ctx)
	left, _ := countBlocks(ctx, e.bs)
	res, _ := e.resultLeft(ctx)
	if len(failed1) != 1 || failed1[0] != h {
		rep.Inconclusivef("light node behind the Service: after the first cycle the failed set is %v (a DeleteBlock failure was injected for height %d)", failed1, h)
	}
	if len(failed2) == 0 && (left > 0 || res) {
		rep.Violate(sigLightLeft, fmt.Sprintf("light node behind pruner.Service: height %d failed in the first cycle (injected DeleteBlock failure), "+
			"was retried, left the failed set, and %d of %d sample blocks are still stored (sampling result stored=%v)", h, left, e.samples, res),
			map[string]any{"failed_after_cycle1": failed1, "left": left})
	}
	sctx, scancel := context.WithTimeout(tagged("drv"), 30*time.Second)
	_ = svc.Stop(sctx)
	scancel()
	rep.Count("light_service_runs", 1)
}

func keysOf(m map[int]bool) []int { return keys(m) }
