package ids

// Arbitrary byte strings are outside TLC's reach (DESIGN.md §8): this part is SAMPLED, seeded by
// VERIF_SEED.  Random input, mutated valid encodings and a fixed list of structured JSON
// malformations go to every decoder under recover().  A panic is a violation; an identifier
// accepted with out-of-range fields (fails its own Validate, or re-encodes to other bytes) is a
// violation.

import (
	"bytes"
	"context"
	"encoding/json"
	"fmt"
	"math/rand"
	"strings"

	"github.com/ipfs/go-cid"

	libshare "github.com/celestiaorg/go-square/v4/share"
	"github.com/celestiaorg/rsmt2d"

	"github.com/celestiaorg/celestia-node/share"
	"github.com/celestiaorg/celestia-node/share/eds"
	"github.com/celestiaorg/celestia-node/share/shwap"
	"github.com/celestiaorg/celestia-node/share/shwap/p2p/bitswap"
	subpb "github.com/celestiaorg/celestia-node/share/shwap/p2p/shrex/shrexsub/pb"
	"github.com/celestiaorg/celestia-node/share/shwap/pb"

	"verifharness/vh"
)

var idTypes = []string{"eds", "row", "sample", "nd", "rnd", "range", "rangev0"}

type decoder struct {
	name   string
	corpus [][]byte                   // valid encodings to mutate
	run    func(b []byte) (acc bool) // returns whether the input was accepted; may call d.violate
}

func mutate(rnd *rand.Rand, b []byte) []byte {
	out := append([]byte{}, b...)
	switch rnd.Intn(7) {
	case 0: // flip bits
		for k := rnd.Intn(3) + 1; k > 0 && len(out) > 0; k-- {
			out[rnd.Intn(len(out))] ^= byte(1 << rnd.Intn(8))
		}
	case 1: // truncate
		if len(out) > 0 {
			out = out[:rnd.Intn(len(out))]
		}
	case 2: // append garbage
		g := make([]byte, rnd.Intn(9)+1)
		rnd.Read(g)
		out = append(out, g...)
	case 3: // overwrite a run with 0x00 / 0xFF
		if len(out) > 0 {
			i := rnd.Intn(len(out))
			v := byte(0)
			if rnd.Intn(2) == 0 {
				v = 0xFF
			}
			for j := i; j < len(out) && j < i+rnd.Intn(12)+1; j++ {
				out[j] = v
			}
		}
	case 4: // insert bytes
		if len(out) > 0 {
			i := rnd.Intn(len(out))
			g := make([]byte, rnd.Intn(5)+1)
			rnd.Read(g)
			out = append(out[:i], append(g, out[i:]...)...)
		}
	case 5: // delete a run
		if len(out) > 2 {
			i := rnd.Intn(len(out) - 1)
			j := i + 1 + rnd.Intn(min(8, len(out)-i-1))
			out = append(out[:i], out[j:]...)
		}
	case 6: // random byte rewrite near the front (length prefixes, tags)
		if len(out) > 0 {
			out[rnd.Intn(min(6, len(out)))] = byte(rnd.Intn(256))
		}
	}
	return out
}

// jsonMutate replaces one JSON value token by something of another shape.
func jsonMutate(rnd *rand.Rand, b []byte) []byte {
	repl := []string{`null`, `""`, `"x"`, `0`, `-1`, `18446744073709551616`, `1e400`, `[]`, `{}`, `true`, `"LEFT"`, `"UP"`, `[null]`, `{"a":1}`, `"AAAA"`, `3.5`}
	s := string(b)
	// token starts: after ':' or '[' or ','
	var pos []int
	for i := 0; i < len(s); i++ {
		if s[i] == ':' || s[i] == '[' || s[i] == ',' {
			pos = append(pos, i+1)
		}
	}
	if len(pos) == 0 {
		return mutate(rnd, b)
	}
	i := pos[rnd.Intn(len(pos))]
	// token end: next ',' '}' ']' at nesting depth 0 (good enough for mutation purposes)
	depth, j, inStr := 0, i, false
	for ; j < len(s); j++ {
		ch := s[j]
		if inStr {
			if ch == '\\' {
				j++
			} else if ch == '"' {
				inStr = false
			}
			continue
		}
		if ch == '"' {
			inStr = true
		} else if ch == '[' || ch == '{' {
			depth++
		} else if ch == ']' || ch == '}' {
			if depth == 0 {
				break
			}
			depth--
		} else if ch == ',' && depth == 0 {
			break
		}
	}
	return []byte(s[:i] + repl[rnd.Intn(len(repl))] + s[j:])
}

func (d *drv) arbitraryBytes() {
	rnd := rand.New(rand.NewSource(vh.Seed()*7919 + 17))
	budget := vh.EnvInt("VERIF_FUZZ_N", 100000)
	w := 4
	sq := squareOf(rnd, w, func(i int) libshare.Namespace {
		if i < 5 {
			return userNs(0x10)
		}
		if i < 11 {
			return userNs(0x20)
		}
		return userNs(0x30)
	})
	uni := squareOf(rnd, w, func(int) libshare.Namespace { return userNs(0x10) })

	// ---- corpora of valid encodings
	var idCorpus = map[string][][]byte{}
	for _, t := range idTypes {
		for k := 0; k < 8; k++ {
			v := nv{T: t, H: uint64(rnd.Int63()) + 1, R: rnd.Intn(1024), C: rnd.Intn(1024), From: rnd.Intn(60000), Ns: string(userNs(byte(k)).Bytes())}
			v.To = v.From + 1 + rnd.Intn(5000)
			id, err := construct(v, 1024)
			if t == "range" || t == "rangev0" {
				id, err = construct(v, 512)
			}
			if err != nil {
				d.rep.Inconclusivef("fuzz: cannot build corpus id %+v: %v", v, err)
				continue
			}
			b, _ := id.MarshalBinary()
			idCorpus[t] = append(idCorpus[t], b)
		}
	}
	smp, _ := sq.SampleForProofAxis(shwap.SampleCoords{Row: 1, Col: 6}, rsmt2d.Row)
	smpC, _ := sq.SampleForProofAxis(shwap.SampleCoords{Row: 5, Col: 2}, rsmt2d.Col)
	rowL, _ := shwap.RowFromEDS(sq.ExtendedDataSquare, 2, shwap.Left)
	rowR, _ := shwap.RowFromEDS(sq.ExtendedDataSquare, 6, shwap.Right)
	rowB, _ := shwap.RowFromEDS(sq.ExtendedDataSquare, 1, shwap.Both)
	ctx := context.Background()
	rndIncl, e1 := sq.RowNamespaceData(ctx, userNs(0x20), 1)
	rndAbs, e2 := sq.RowNamespaceData(ctx, userNs(0x18), 1)
	nd, e3 := eds.NamespaceData(ctx, sq, userNs(0x20))
	rng1, e4 := uni.RangeNamespaceData(ctx, 1, 3)
	rng3, e5 := uni.RangeNamespaceData(ctx, 2, 11)
	for _, e := range []error{e1, e2, e3, e4, e5} {
		if e != nil {
			d.rep.Inconclusivef("fuzz: cannot build corpus container: %v", e)
			return
		}
	}
	if rndAbs.Proof == nil || !rndAbs.Proof.IsOfAbsence() || len(nd) != 2 {
		d.rep.Inconclusivef("fuzz: corpus containers do not have the intended shape")
	}

	enc := func(f func(*bytes.Buffer) error) []byte {
		var b bytes.Buffer
		if err := f(&b); err != nil {
			d.rep.Inconclusivef("fuzz: corpus encoding failed: %v", err)
		}
		return b.Bytes()
	}
	js := func(v any) []byte {
		b, err := json.Marshal(v)
		if err != nil {
			d.rep.Inconclusivef("fuzz: corpus json failed: %v", err)
		}
		return b
	}
	pbm := func(m interface{ Marshal() ([]byte, error) }) []byte {
		b, err := m.Marshal()
		if err != nil {
			d.rep.Inconclusivef("fuzz: corpus proto failed: %v", err)
		}
		return b
	}

	var decs []decoder
	// identifiers: FromBinary and ReadFrom
	for _, t := range idTypes {
		t := t
		chk := func(b []byte, id binID, how string) {
			got := normalise(t, deref(id))
			if verr := id.Validate(); verr != nil {
				d.violate(t+"/decode-accepts-invalid", fmt.Sprintf("%s(%x) = %+v which fails its own Validate: %s", how, b, got, short(verr)), map[string]any{"t": t, "bytes": fmt.Sprintf("%x", b)})
			}
			if rb, merr := id.MarshalBinary(); merr != nil || !bytes.Equal(rb, b[:min(len(b), idSize[t])]) {
				d.violate(t+"/decode-guesses", fmt.Sprintf("%s(%x) = %+v which encodes to %x (%s)", how, b, got, rb, short(merr)), map[string]any{"t": t, "bytes": fmt.Sprintf("%x", b)})
			}
		}
		decs = append(decs, decoder{name: "id/" + t + "/FromBinary", corpus: idCorpus[t], run: func(b []byte) bool {
			id, err := fromBinary(t, b)
			if err != nil {
				return false
			}
			if len(b) != idSize[t] {
				d.violate(t+"/decode-accepts-wrong-length", fmt.Sprintf("FromBinary accepts %d bytes %x", len(b), b), map[string]any{"t": t, "bytes": fmt.Sprintf("%x", b)})
			}
			chk(b, id, "FromBinary")
			return true
		}})
		decs = append(decs, decoder{name: "id/" + t + "/ReadFrom", corpus: idCorpus[t], run: func(b []byte) bool {
			id, n, err := readFrom(t, bytes.NewReader(b))
			if err != nil {
				return false
			}
			if int(n) != idSize[t] || len(b) < idSize[t] {
				d.violate(t+"/decode-accepts-wrong-length", fmt.Sprintf("ReadFrom accepts %x reading %d bytes", b, n), map[string]any{"t": t, "bytes": fmt.Sprintf("%x", b)})
				return true
			}
			chk(b, id, "ReadFrom")
			return true
		}})
	}
	// containers: length-delimited stream
	decs = append(decs,
		decoder{"stream/sample", [][]byte{enc(func(b *bytes.Buffer) error { _, e := smp.WriteTo(b); return e }), enc(func(b *bytes.Buffer) error { _, e := smpC.WriteTo(b); return e })},
			func(b []byte) bool { var x shwap.Sample; _, err := x.ReadFrom(bytes.NewReader(b)); return err == nil }},
		decoder{"stream/row", [][]byte{enc(func(b *bytes.Buffer) error { _, e := rowL.WriteTo(b); return e }), enc(func(b *bytes.Buffer) error { _, e := rowR.WriteTo(b); return e }), enc(func(b *bytes.Buffer) error { _, e := rowB.WriteTo(b); return e })},
			func(b []byte) bool { var x shwap.Row; _, err := x.ReadFrom(bytes.NewReader(b)); return err == nil }},
		decoder{"stream/rnd", [][]byte{enc(func(b *bytes.Buffer) error { _, e := rndIncl.WriteTo(b); return e }), enc(func(b *bytes.Buffer) error { _, e := rndAbs.WriteTo(b); return e })},
			func(b []byte) bool {
				var x shwap.RowNamespaceData
				_, err := x.ReadFrom(bytes.NewReader(b))
				return err == nil
			}},
		decoder{"stream/nd", [][]byte{enc(func(b *bytes.Buffer) error { _, e := nd.WriteTo(b); return e })},
			func(b []byte) bool { var x shwap.NamespaceData; _, err := x.ReadFrom(bytes.NewReader(b)); return err == nil }},
		decoder{"stream/range", [][]byte{enc(func(b *bytes.Buffer) error { _, e := rng1.WriteTo(b); return e }), enc(func(b *bytes.Buffer) error { _, e := rng3.WriteTo(b); return e })},
			func(b []byte) bool {
				var x shwap.RangeNamespaceData
				_, err := x.ReadFrom(bytes.NewReader(b))
				return err == nil
			}},
	)
	// containers: protobuf message + FromProto
	decs = append(decs,
		decoder{"proto/sample", [][]byte{pbm(smp.ToProto()), pbm(smpC.ToProto())}, func(b []byte) bool {
			var m pb.Sample
			if m.Unmarshal(b) != nil {
				return false
			}
			_, err := shwap.SampleFromProto(&m)
			return err == nil
		}},
		decoder{"proto/row", [][]byte{pbm(rowL.ToProto()), pbm(rowR.ToProto())}, func(b []byte) bool {
			var m pb.Row
			if m.Unmarshal(b) != nil {
				return false
			}
			_, err := shwap.RowFromProto(&m)
			return err == nil
		}},
		decoder{"proto/rnd", [][]byte{pbm(rndIncl.ToProto()), pbm(rndAbs.ToProto())}, func(b []byte) bool {
			var m pb.RowNamespaceData
			if m.Unmarshal(b) != nil {
				return false
			}
			_, err := shwap.RowNamespaceDataFromProto(&m)
			return err == nil
		}},
		decoder{"proto/range", [][]byte{pbm(rng1.ToProto()), pbm(rng3.ToProto())}, func(b []byte) bool {
			var m pb.RangeNamespaceData
			if m.Unmarshal(b) != nil {
				return false
			}
			_, err := shwap.RangeNamespaceDataFromProto(&m)
			return err == nil
		}},
		decoder{"proto/share", [][]byte{pbm(&pb.Share{Data: smp.Share.ToBytes()})}, func(b []byte) bool {
			var m pb.Share
			if m.Unmarshal(b) != nil {
				return false
			}
			_, err := shwap.ShareFromProto(&m)
			return err == nil
		}},
	)
	// shrex-sub notification: the exported pieces of ValidatorFn.validate (the method itself is
	// unexported and recovers from panics on its own)
	decs = append(decs, decoder{"shrexsub/notification", [][]byte{pbm(&subpb.RecentEDSNotification{Height: 5, DataHash: bytes.Repeat([]byte{7}, 32)})}, func(b []byte) bool {
		var m subpb.RecentEDSNotification
		if m.Unmarshal(b) != nil {
			return false
		}
		dh := share.DataHash(m.DataHash)
		return m.Height != 0 && !dh.IsEmptyEDS() && dh.Validate() == nil
	}})
	// CIDs
	var cidCorpus [][]byte
	for _, t := range []string{"row", "sample", "rnd", "rangev0"} {
		v := nv{T: t, H: 9, R: 3, C: 2, From: 1, To: 7, Ns: string(userNs(1).Bytes())}
		if blk, err := emptyBlock(v, 8); err == nil && blk != nil {
			cidCorpus = append(cidCorpus, blk.CID().Bytes())
		}
	}
	decs = append(decs, decoder{"cid/EmptyBlock", cidCorpus, func(b []byte) bool {
		k, err := cid.Cast(b)
		if err != nil {
			return false
		}
		blk, err := bitswap.EmptyBlock(k)
		if err != nil {
			return false
		}
		bt, bid := blockID(blk)
		if id, ok := bid.(binID); ok {
			if verr := id.Validate(); verr != nil {
				d.violate("cid/"+bt+"/accepts-invalid-id", fmt.Sprintf("EmptyBlock(%x) = %+v fails Validate: %s", b, bid, short(verr)), fmt.Sprintf("%x", b))
			}
		}
		if !bytes.Equal(blk.CID().Bytes(), b) {
			d.violate("cid/"+bt+"/cast-guesses", fmt.Sprintf("EmptyBlock(%x).CID() = %x", b, blk.CID().Bytes()), fmt.Sprintf("%x", b))
		}
		return true
	}})

	// JSON decoders
	type jdec struct {
		name   string
		corpus [][]byte
		run    func([]byte) error
	}
	jdecs := []jdec{
		{"json/sample", [][]byte{js(smp), js(smpC)}, func(b []byte) error { var x shwap.Sample; return json.Unmarshal(b, &x) }},
		{"json/row", [][]byte{js(rowL), js(rowR), js(rowB)}, func(b []byte) error { var x shwap.Row; return json.Unmarshal(b, &x) }},
		{"json/rnd", [][]byte{js(rndIncl), js(rndAbs)}, func(b []byte) error { var x shwap.RowNamespaceData; return json.Unmarshal(b, &x) }},
		{"json/nd", [][]byte{js(nd)}, func(b []byte) error { var x shwap.NamespaceData; return json.Unmarshal(b, &x) }},
		{"json/range", [][]byte{js(rng1), js(rng3)}, func(b []byte) error { var x shwap.RangeNamespaceData; return json.Unmarshal(b, &x) }},
		{"json/sampleid", [][]byte{[]byte(`{"height":7,"row_index":3,"share_index":258}`)}, func(b []byte) error {
			var x shwap.SampleID
			err := json.Unmarshal(b, &x)
			if err == nil && x.Validate() != nil {
				d.violate("sample/json-decode-accepts-invalid", fmt.Sprintf("SampleID.UnmarshalJSON accepts %s as %+v which fails Validate", b, x), string(b))
			}
			return err
		}},
	}
	// fixed structured malformations (every decoder gets every one)
	fixed := []string{``, `null`, `{}`, `[]`, `0`, `"x"`, `{"side":"UP"}`, `{"side":""}`, `{"shares":null,"side":"left"}`,
		`{"shares":[],"side":"BOTH"}`, `{"shares":[null],"side":"LEFT"}`, `{"share":null,"proof":null,"proof_type":7}`,
		`{"proof":{"start":-1,"end":-5}}`, `{"shares":[[null]]}`, `{"shares":"AAAA"}`, `[{"shares":null,"proof":null},null]`,
		`{"first_row_proof":{"start":9223372036854775807,"end":-9223372036854775808,"nodes":[null]}}`,
		`{"height":-1}`, `{"height":1,"row_index":9223372036854775807,"share_index":-9223372036854775808}`,
		`{"height":1,"row_index":1e3}`, strings.Repeat("[", 5000)}

	per := budget / (len(decs) + len(jdecs))
	attempts, accepted := 0, 0
	for _, dc := range decs {
		acc := 0
		for i := 0; i < per; i++ {
			var in []byte
			switch {
			case i%3 == 0 || len(dc.corpus) == 0: // random bytes, length near a valid one
				n := rnd.Intn(80)
				if len(dc.corpus) > 0 && rnd.Intn(2) == 0 {
					n = len(dc.corpus[rnd.Intn(len(dc.corpus))]) + rnd.Intn(3) - 1
				}
				in = make([]byte, max(n, 0))
				rnd.Read(in)
			default: // mutated valid (1..3 mutations)
				in = dc.corpus[rnd.Intn(len(dc.corpus))]
				for k := rnd.Intn(3) + 1; k > 0; k-- {
					in = mutate(rnd, in)
				}
			}
			var ok bool
			pan, pv := vh.Recover(func() { ok = dc.run(in) })
			attempts++
			if pan {
				d.violate(strings.SplitN(dc.name, "/", 2)[1]+"/decode-panic", fmt.Sprintf("%s panics on %d arbitrary bytes %x: %s", dc.name, len(in), in[:min(len(in), 64)], pv),
					map[string]any{"decoder": dc.name, "bytes": fmt.Sprintf("%x", in)})
			}
			if ok {
				acc++
			}
		}
		accepted += acc
		d.rep.Count("fuzz_accepted_"+strings.ReplaceAll(dc.name, "/", "_"), int64(acc))
	}
	for _, dc := range jdecs {
		inputs := make([][]byte, 0, per+len(fixed))
		for _, f := range fixed {
			inputs = append(inputs, []byte(f))
		}
		for i := 0; i < per; i++ {
			in := dc.corpus[rnd.Intn(len(dc.corpus))]
			if i%4 == 3 {
				in = mutate(rnd, in)
			} else {
				for k := rnd.Intn(2) + 1; k > 0; k-- {
					in = jsonMutate(rnd, in)
				}
			}
			inputs = append(inputs, in)
		}
		for _, in := range inputs {
			var err error
			pan, pv := vh.Recover(func() { err = dc.run(in) })
			attempts++
			if pan {
				kind := strings.TrimPrefix(dc.name, "json/")
				d.violate(kind+"/json-decode-panic", fmt.Sprintf("%s panics on %s: %s", dc.name, in[:min(len(in), 200)], pv),
					map[string]any{"decoder": dc.name, "json": string(in[:min(len(in), 2000)])})
			} else if err == nil {
				accepted++
			}
		}
	}
	d.rep.Count("arbitrary_inputs", int64(attempts))
	d.rep.Count("arbitrary_inputs_accepted", int64(accepted))
	d.rep.Set("arbitrary_bytes", "sampled (seeded), not exhaustive")
}

