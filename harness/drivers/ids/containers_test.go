package ids

// Container part of C18: every structural variant TLC enumerated from spec/shwap/ShwapContainers.tla
// is produced from a REAL square (seeded), compared with the specified structure (conformance), and
// pushed through the real protobuf / length-delimited stream / JSON codec; the decoded value must
// equal the original.

import (
	"bytes"
	"context"
	"encoding/json"
	"fmt"
	"math/rand"
	"os"
	"strings"
	"testing"

	libshare "github.com/celestiaorg/go-square/v4/share"
	"github.com/celestiaorg/nmt"
	"github.com/celestiaorg/rsmt2d"

	"github.com/celestiaorg/celestia-node/share"
	"github.com/celestiaorg/celestia-node/share/eds"
	"github.com/celestiaorg/celestia-node/share/shwap"
	"github.com/celestiaorg/celestia-node/share/shwap/pb"

	"verifharness/vh"
)

type mProof struct {
	Kind string `json:"kind"`
	S    int    `json:"s"`
	E    int    `json:"e"`
}

type mRow struct {
	N     int    `json:"n"`
	Proof mProof `json:"proof"`
}

type cCase struct {
	X struct {
		K       string `json:"k"`
		W       int    `json:"w"`
		R       int    `json:"r"`
		C       int    `json:"c"`
		Axis    string `json:"axis"`
		Idx     int    `json:"idx"`
		Side    string `json:"side"`
		Variant string `json:"variant"`
		S       int    `json:"s"`
		N       int    `json:"n"`
		From    int    `json:"from"`
		To      int    `json:"to"`
	} `json:"x"`
	Codec string          `json:"codec"`
	Value json.RawMessage `json:"value"`
}

// ---- seeded real squares ---------------------------------------------------------------------

func userNs(b byte) libshare.Namespace {
	return libshare.MustNewV0Namespace([]byte{0xC0, 0xFF, 0xEE, 0, 0, 0, 0, 0, 0, b})
}

func mkShare(rnd *rand.Rand, ns libshare.Namespace) libshare.Share {
	raw := make([]byte, libshare.ShareSize)
	rnd.Read(raw)
	copy(raw, ns.Bytes())
	raw[libshare.NamespaceSize] = 0x01 // info byte: version 0, sequence start
	sh, err := libshare.NewShare(raw)
	if err != nil {
		panic(err)
	}
	return sh
}

// squareOf builds a real EDS accessor whose ODS share i has namespace nsOf(i) (non-decreasing).
func squareOf(rnd *rand.Rand, w int, nsOf func(i int) libshare.Namespace) *eds.Rsmt2D {
	shares := make([]libshare.Share, w*w)
	for i := range shares {
		shares[i] = mkShare(rnd, nsOf(i))
	}
	acc, err := eds.Rsmt2DFromShares(shares, w)
	if err != nil {
		panic(err)
	}
	return acc
}

// ---- canonical dumps (deep equality of real containers) -----------------------------------------

func dumpProof(p *nmt.Proof) string {
	if p == nil {
		return "nil"
	}
	return fmt.Sprintf("{%d %d %x lh=%x ign=%v}", p.Start(), p.End(), p.Nodes(), p.LeafHash(), p.IsMaxNamespaceIDIgnored())
}

func dumpShares(s []libshare.Share) string {
	var b bytes.Buffer
	fmt.Fprintf(&b, "%d:", len(s))
	for _, x := range s {
		b.Write(x.ToBytes())
	}
	return b.String()
}

func dumpSample(s shwap.Sample) string {
	return fmt.Sprintf("sample %x %s axis=%d", s.Share.ToBytes(), dumpProof(s.Proof), s.ProofType)
}

func dumpRow(r shwap.Row) (string, error) {
	cp := r // Shares() completes the receiver; work on a copy
	full, err := cp.Shares()
	if err != nil {
		return "", err
	}
	return "row " + dumpShares(full), nil
}

func dumpRnd(r shwap.RowNamespaceData) string {
	return "rnd " + dumpShares(r.Shares) + " " + dumpProof(r.Proof)
}

func dumpNd(nd shwap.NamespaceData) string {
	s := fmt.Sprintf("nd %d", len(nd))
	for _, r := range nd {
		s += "|" + dumpRnd(r)
	}
	return s
}

func dumpRange(r shwap.RangeNamespaceData) string {
	s := fmt.Sprintf("range %d", len(r.Shares))
	for _, row := range r.Shares {
		s += "|" + dumpShares(row)
	}
	return s + " first=" + dumpProof(r.FirstIncompleteRowProof) + " last=" + dumpProof(r.LastIncompleteRowProof)
}

// trunc keeps the proof part of a dump readable (share bytes are long)
func trunc(s string) string {
	if i := strings.Index(s, " first="); i >= 0 {
		t := s[i:]
		if len(t) > 260 {
			t = t[:260] + "..."
		}
		return s[:min(i, 12)] + "..." + t
	}
	return s
}

func proofMatches(p *nmt.Proof, m mProof) bool {
	switch m.Kind {
	case "none":
		return p == nil
	case "incl":
		return p != nil && !p.IsOfAbsence() && p.Start() == m.S && p.End() == m.E
	case "abs":
		return p != nil && p.IsOfAbsence() && p.Start() == m.S && p.End() == m.E
	}
	return false
}

// ---- the driver part ----------------------------------------------------------------------------

func (d *drv) containers(t *testing.T) {
	var cases []cCase
	if err := vh.ReadJSON(os.Getenv("VERIF_CONTAINER_CASES"), &cases); err != nil {
		t.Fatalf("reading container cases: %v", err)
	}
	rnd := vh.Rand()
	ctx := context.Background()
	uni := map[int]*eds.Rsmt2D{}
	for _, w := range []int{1, 2, 4, 8} {
		uni[w] = squareOf(rnd, w, func(int) libshare.Namespace { return userNs(0x10) })
	}
	for i := range cases {
		c := &cases[i]
		pan, pv := vh.Recover(func() { d.containerCase(ctx, rnd, uni, c) })
		if pan {
			d.violate("container/"+c.X.K+"/"+c.Codec+"/panic", "panic in the real codec for a constructible container: "+pv, c)
		}
	}
	d.rep.Set("container_cases", len(cases))
}

func (d *drv) containerCase(ctx context.Context, rnd *rand.Rand, uni map[int]*eds.Rsmt2D, c *cCase) {
	w := c.X.W
	k := c.X.K
	fail := func(what string, before, after string) {
		if len(before) > 300 {
			before = before[:300] + "..."
		}
		if len(after) > 300 {
			after = after[:300] + "..."
		}
		d.violate("container/"+k+"/"+c.Codec+"/"+what, fmt.Sprintf("%s %+v through %s: before %q after %q", k, c.X, c.Codec, before, after), c)
	}
	d.rep.Count("container_"+k+"_"+c.Codec, 1)
	switch k {
	case "sample":
		axis := rsmt2d.Row
		if c.X.Axis == "col" {
			axis = rsmt2d.Col
		}
		s, err := uni[w].SampleForProofAxis(shwap.SampleCoords{Row: c.X.R, Col: c.X.C}, axis)
		if err != nil {
			d.rep.Inconclusivef("container: cannot build sample %+v: %v", c.X, err)
			return
		}
		var v struct {
			Proof mProof `json:"proof"`
		}
		_ = json.Unmarshal(c.Value, &v)
		if !proofMatches(s.Proof, v.Proof) {
			d.rep.Inconclusivef("drift: real sample proof %s, specified %+v", dumpProof(s.Proof), v.Proof)
		}
		var back shwap.Sample
		switch c.Codec {
		case "proto":
			b, err := s.ToProto().Marshal()
			var m pb.Sample
			if err == nil {
				err = m.Unmarshal(b)
			}
			if err == nil {
				back, err = shwap.SampleFromProto(&m)
			}
			if err != nil {
				fail("codec-error", dumpSample(s), err.Error())
				return
			}
		case "stream":
			var buf bytes.Buffer
			if _, err := s.WriteTo(&buf); err != nil {
				fail("codec-error", dumpSample(s), err.Error())
				return
			}
			buf.Write([]byte{0xAA})
			if _, err := back.ReadFrom(&buf); err != nil || buf.Len() != 1 {
				fail("codec-error", dumpSample(s), fmt.Sprintf("err=%v left=%d", err, buf.Len()))
				return
			}
		case "json":
			b, err := json.Marshal(s)
			if err == nil {
				err = json.Unmarshal(b, &back)
			}
			if err != nil {
				fail("codec-error", dumpSample(s), err.Error())
				return
			}
		}
		if dumpSample(s) != dumpSample(back) {
			fail("roundtrip-value-changed", dumpSample(s), dumpSample(back))
			return
		}
		// the decoded sample still verifies where the original did
		roots, _ := uni[w].AxisRoots(ctx)
		if s.Verify(roots, c.X.R, c.X.C) == nil && back.Verify(roots, c.X.R, c.X.C) != nil {
			fail("roundtrip-breaks-verification", dumpSample(s), dumpSample(back))
			return
		}
	case "row":
		side := map[string]shwap.RowSide{"LEFT": shwap.Left, "RIGHT": shwap.Right, "BOTH": shwap.Both}[c.X.Side]
		r, err := shwap.RowFromEDS(uni[w].ExtendedDataSquare, c.X.Idx, side)
		if err != nil {
			d.rep.Inconclusivef("container: cannot build row %+v: %v", c.X, err)
			return
		}
		before, err := dumpRow(r)
		if err != nil {
			d.rep.Inconclusivef("container: row %+v does not extend: %v", c.X, err)
			return
		}
		var back shwap.Row
		switch c.Codec {
		case "proto":
			b, err := r.ToProto().Marshal()
			var m pb.Row
			if err == nil {
				err = m.Unmarshal(b)
			}
			if err == nil {
				back, err = shwap.RowFromProto(&m)
			}
			if err != nil {
				fail("codec-error", before, err.Error())
				return
			}
		case "stream":
			var buf bytes.Buffer
			if _, err := r.WriteTo(&buf); err != nil {
				fail("codec-error", before, err.Error())
				return
			}
			buf.Write([]byte{0xAA})
			if _, err := back.ReadFrom(&buf); err != nil || buf.Len() != 1 {
				fail("codec-error", before, fmt.Sprintf("err=%v left=%d", err, buf.Len()))
				return
			}
		case "json":
			b, err := json.Marshal(r)
			if err == nil {
				err = json.Unmarshal(b, &back)
			}
			if err != nil {
				fail("codec-error", before, err.Error())
				return
			}
		}
		after, err := dumpRow(back)
		if err != nil || after != before {
			fail("roundtrip-value-changed", before, fmt.Sprintf("%s (err=%v)", after, err))
			return
		}
		roots, _ := uni[w].AxisRoots(ctx)
		if err := back.Verify(roots, c.X.Idx); err != nil {
			fail("roundtrip-breaks-verification", before, err.Error())
			return
		}
	case "rnd":
		var r shwap.RowNamespaceData
		var v mRow
		_ = json.Unmarshal(c.Value, &v)
		switch c.X.Variant {
		case "empty":
		case "incl", "absence":
			// row 0: [0,s) A, [s,s+n) B, rest C ; later rows D.  For absence B has no share.
			s, n := c.X.S, c.X.N
			sq := squareOf(rnd, w, func(i int) libshare.Namespace {
				switch {
				case i >= w:
					return userNs(0x40)
				case i < s:
					return userNs(0x10)
				case i < s+n:
					return userNs(0x20)
				}
				return userNs(0x30)
			})
			var err error
			r, err = sq.RowNamespaceData(context.Background(), userNs(0x20), 0)
			if err != nil {
				d.rep.Inconclusivef("container: cannot build rnd %+v: %v", c.X, err)
				return
			}
			if len(r.Shares) != v.N || !proofMatches(r.Proof, v.Proof) {
				d.rep.Inconclusivef("drift: real rnd %+v has %d shares, proof %s; specified %+v", c.X, len(r.Shares), dumpProof(r.Proof), v)
			}
		}
		var back shwap.RowNamespaceData
		switch c.Codec {
		case "proto":
			b, err := r.ToProto().Marshal()
			var m pb.RowNamespaceData
			if err == nil {
				err = m.Unmarshal(b)
			}
			if err == nil {
				back, err = shwap.RowNamespaceDataFromProto(&m)
			}
			if err != nil {
				fail("codec-error", dumpRnd(r), err.Error())
				return
			}
		case "stream":
			var buf bytes.Buffer
			if _, err := r.WriteTo(&buf); err != nil {
				fail("codec-error", dumpRnd(r), err.Error())
				return
			}
			buf.Write([]byte{0xAA})
			if _, err := back.ReadFrom(&buf); err != nil || buf.Len() != 1 {
				fail("codec-error", dumpRnd(r), fmt.Sprintf("err=%v left=%d", err, buf.Len()))
				return
			}
		case "json":
			b, err := json.Marshal(r)
			if err == nil {
				err = json.Unmarshal(b, &back)
			}
			if err != nil {
				fail("codec-error", dumpRnd(r), err.Error())
				return
			}
		}
		if dumpRnd(r) != dumpRnd(back) {
			fail("roundtrip-value-changed", dumpRnd(r), dumpRnd(back))
			return
		}
	case "nd":
		s, n := c.X.S, c.X.N
		nd := shwap.NamespaceData{}
		var v struct {
			Rows []mRow `json:"rows"`
		}
		_ = json.Unmarshal(c.Value, &v)
		if n > 0 {
			sq := squareOf(rnd, w, func(i int) libshare.Namespace {
				switch {
				case i < s:
					return userNs(0x10)
				case i < s+n:
					return userNs(0x20)
				}
				return userNs(0x30)
			})
			var err error
			nd, err = eds.NamespaceData(ctx, sq, userNs(0x20))
			if err != nil {
				d.rep.Inconclusivef("container: cannot build nd %+v: %v", c.X, err)
				return
			}
			ok := len(nd) == len(v.Rows)
			for i := 0; ok && i < len(nd); i++ {
				ok = len(nd[i].Shares) == v.Rows[i].N && proofMatches(nd[i].Proof, v.Rows[i].Proof)
			}
			if !ok {
				d.rep.Inconclusivef("drift: real nd %+v = %d rows, specified %+v", c.X, len(nd), v.Rows)
			}
			roots, _ := sq.AxisRoots(ctx)
			if err := nd.Verify(roots, userNs(0x20)); err != nil {
				d.rep.Inconclusivef("container: honest nd %+v does not verify: %v", c.X, err)
			}
		}
		var back shwap.NamespaceData
		switch c.Codec {
		case "stream":
			var buf bytes.Buffer
			if _, err := nd.WriteTo(&buf); err != nil {
				fail("codec-error", dumpNd(nd), err.Error())
				return
			}
			if _, err := back.ReadFrom(&buf); err != nil {
				fail("codec-error", dumpNd(nd), err.Error())
				return
			}
		case "json":
			b, err := json.Marshal(nd)
			if err == nil {
				err = json.Unmarshal(b, &back)
			}
			if err != nil {
				fail("codec-error", dumpNd(nd), err.Error())
				return
			}
		}
		if dumpNd(nd) != dumpNd(back) {
			fail("roundtrip-value-changed", dumpNd(nd), dumpNd(back))
			return
		}
	case "range":
		r, err := uni[w].RangeNamespaceData(ctx, c.X.From, c.X.To)
		if err != nil {
			d.rep.Inconclusivef("container: cannot build range %+v: %v", c.X, err)
			return
		}
		var v struct {
			Rows  []int  `json:"rows"`
			First mProof `json:"first"`
			Last  mProof `json:"last"`
		}
		_ = json.Unmarshal(c.Value, &v)
		ok := len(r.Shares) == len(v.Rows) && proofMatches(r.FirstIncompleteRowProof, v.First) && proofMatches(r.LastIncompleteRowProof, v.Last)
		for i := 0; ok && i < len(v.Rows); i++ {
			ok = len(r.Shares[i]) == v.Rows[i]
		}
		if !ok {
			d.rep.Inconclusivef("drift: real range %+v = %s..., specified %+v", c.X, dumpRange(r)[:40], v)
		}
		var back shwap.RangeNamespaceData
		switch c.Codec {
		case "proto":
			b, err := r.ToProto().Marshal()
			var m pb.RangeNamespaceData
			if err == nil {
				err = m.Unmarshal(b)
			}
			if err == nil {
				back, err = shwap.RangeNamespaceDataFromProto(&m)
			}
			if err != nil {
				fail("codec-error", dumpRange(r), err.Error())
				return
			}
		case "stream":
			var buf bytes.Buffer
			if _, err := r.WriteTo(&buf); err != nil {
				fail("codec-error", dumpRange(r), err.Error())
				return
			}
			wire := append([]byte{}, buf.Bytes()...)
			if _, err := back.ReadFrom(&buf); err != nil {
				fail("codec-error", dumpRange(r), err.Error())
				return
			}
			// DecodeIgnoresReceiver: the same bytes decoded into a value that already holds another
			// container (first and last partial-row proof set) -- what the shrex getter does when it
			// reuses its buffer across attempts -- must give the same result
			if w >= 2 {
				dirty, err := uni[w].RangeNamespaceData(ctx, 1, w+1)
				if err != nil || dirty.FirstIncompleteRowProof == nil || dirty.LastIncompleteRowProof == nil {
					d.rep.Inconclusivef("container: cannot build the two-proof receiver for w=%d: %v", w, err)
				} else if _, err := dirty.ReadFrom(bytes.NewReader(wire)); err != nil {
					fail("codec-error", dumpRange(r), "into used receiver: "+err.Error())
					return
				} else if dumpRange(dirty) != dumpRange(r) {
					d.violate("container/range/stream/decode-depends-on-receiver",
						fmt.Sprintf("range %+v: ReadFrom into a value that held range [1,%d) keeps a proof of the old container: sent %q, decoded %q",
							c.X, w+1, trunc(dumpRange(r)), trunc(dumpRange(dirty))), c)
					return
				} else {
					d.rep.Count("container_range_reused_receiver_ok", 1)
				}
			}
		case "json":
			b, err := json.Marshal(r)
			if err == nil {
				err = json.Unmarshal(b, &back)
			}
			if err != nil {
				fail("codec-error", dumpRange(r), err.Error())
				return
			}
		}
		if dumpRange(r) != dumpRange(back) {
			fail("roundtrip-value-changed", dumpRange(r), dumpRange(back))
			return
		}
		// the decoded container still verifies for the requested coordinates
		roots, _ := uni[w].AxisRoots(ctx)
		from, _ := shwap.SampleCoordsFrom1DIndex(c.X.From, w)
		to, _ := shwap.SampleCoordsFrom1DIndex(c.X.To-1, w)
		if err := back.VerifyInclusion(from, to, w, roots.RowRoots[from.Row:to.Row+1]); err != nil {
			fail("roundtrip-breaks-verification", dumpRange(r), err.Error())
			return
		}
	}
	d.rep.Count("container_roundtrips_ok", 1)
}

var _ = share.AxisRootSize
