// Package ids binds spec/shwap/ShwapIDs.tla to the real identifier code (C18, and the id<->CID part
// of C10).  Every CASE TLC enumerated (boundary lattice of every field, structured malformations,
// malformed CID framings) is materialised on the real constructors / MarshalBinary / WriteTo /
// <T>IDFromBinary / ReadFrom / Block.CID / EmptyBlock / JSON, and
//   - the property's own oracles are evaluated on the REAL behaviour (round trip, inside the square,
//     no truncation, malformed input refused, no panic)            -> rep.Violate
//   - real bytes / verdicts are compared with the specified ones   -> drift => rep.Inconclusivef
//
// A seeded arbitrary-bytes part (sampled complement, not exhaustive) feeds random and mutated
// input to every decoder under recover().
package ids

import (
	"bytes"
	"encoding/json"
	"fmt"
	"io"
	"math/big"
	"os"
	"strings"
	"testing"

	"github.com/ipfs/go-cid"

	libshare "github.com/celestiaorg/go-square/v4/share"

	"github.com/celestiaorg/celestia-node/share/shwap"
	"github.com/celestiaorg/celestia-node/share/shwap/p2p/bitswap"

	"verifharness/vh"
)

// ---------------------------------------------------------------- model values

type limbs []int64

func (l limbs) big() *big.Int {
	if len(l) == 1 && l[0] < 0 {
		return big.NewInt(l[0])
	}
	v := new(big.Int)
	for _, x := range l {
		v.Lsh(v, 16)
		v.Add(v, big.NewInt(x))
	}
	return v
}
func (l limbs) u64() uint64 { return l.big().Uint64() }
func (l limbs) i() int      { return int(l.big().Int64()) }

type mID struct {
	T    string `json:"t"`
	H    limbs  `json:"h"`
	R    limbs  `json:"r"`
	C    limbs  `json:"c"`
	From limbs  `json:"from"`
	To   limbs  `json:"to"`
	Ns   []int  `json:"ns"`
}

type mCaseIn struct {
	Kind     string `json:"kind"`
	ID       *mID   `json:"id"`
	Size     int    `json:"size"`
	T        string `json:"t"`
	Why      string `json:"why"`
	Bytes    []int  `json:"bytes"`
	Ver      int    `json:"ver"`
	Codec    int    `json:"codec"`
	Mh       int    `json:"mh"`
	Len      int    `json:"len"`
	Digest   []int  `json:"digest"`
	Trailing []int  `json:"trailing"`
}

type mCase struct {
	C       mCaseIn `json:"c"`
	Stage   string  `json:"stage"`
	Verdict string  `json:"verdict"`
	Wire    []int   `json:"wire"`
	Cidw    []int   `json:"cidw"`
	Back    mID     `json:"back"`
}

func toBytes(a []int) []byte {
	b := make([]byte, len(a))
	for i, x := range a {
		b[i] = byte(x)
	}
	return b
}

// nv is the normalised content of a real identifier.
type nv struct {
	T        string
	H        uint64
	R, C     int
	From, To int
	Ns       string
}

func (m *mID) nv() nv {
	return nv{T: m.T, H: m.H.u64(), R: m.R.i(), C: m.C.i(), From: m.From.i(), To: m.To.i(), Ns: string(toBytes(m.Ns))}
}

func normalise(t string, id any) nv {
	switch v := id.(type) {
	case shwap.EdsID:
		return nv{T: t, H: v.Height()}
	case shwap.RowID:
		return nv{T: t, H: v.Height(), R: v.RowIndex}
	case shwap.SampleID:
		return nv{T: t, H: v.Height(), R: v.RowIndex, C: v.ShareIndex}
	case shwap.NamespaceDataID:
		return nv{T: t, H: v.Height(), Ns: string(v.DataNamespace.Bytes())}
	case shwap.RowNamespaceDataID:
		return nv{T: t, H: v.Height(), R: v.RowIndex, Ns: string(v.DataNamespace.Bytes())}
	case shwap.RangeNamespaceDataID:
		return nv{T: t, H: v.Height(), From: v.From, To: v.To}
	case shwap.RangeNamespaceDataIDV0:
		return nv{T: t, H: v.Height(), From: v.From, To: v.To}
	}
	panic(fmt.Sprintf("normalise: unknown %T", id))
}

// ---------------------------------------------------------------- real operations per type

var idSize = map[string]int{
	"eds": shwap.EdsIDSize, "row": shwap.RowIDSize, "sample": shwap.SampleIDSize,
	"nd": shwap.NamespaceDataIDSize, "rnd": shwap.RowNamespaceDataIDSize,
	"range": shwap.RangeNamespaceDataIDSize, "rangev0": shwap.RangeNamespaceDataIDV0Size,
}

type binID interface {
	MarshalBinary() ([]byte, error)
	WriteTo(io.Writer) (int64, error)
	Validate() error
}

func edsIDOf(h uint64) shwap.EdsID {
	if h == 0 {
		return shwap.EdsID{} // NewEdsID refuses 0; the zero value is what a caller can still hold
	}
	e, err := shwap.NewEdsID(h)
	if err != nil {
		panic(err)
	}
	return e
}

func construct(v nv, size int) (binID, error) {
	switch v.T {
	case "eds":
		return wrap(shwap.NewEdsID(v.H))
	case "row":
		return wrap(shwap.NewRowID(v.H, v.R, size))
	case "sample":
		return wrap(shwap.NewSampleID(v.H, shwap.SampleCoords{Row: v.R, Col: v.C}, size))
	case "nd":
		ns, err := libshare.NewNamespaceFromBytes([]byte(v.Ns))
		if err != nil {
			return nil, fmt.Errorf("HARNESS: namespace not holdable: %w", err)
		}
		return wrap(shwap.NewNamespaceDataID(v.H, ns))
	case "rnd":
		ns, err := libshare.NewNamespaceFromBytes([]byte(v.Ns))
		if err != nil {
			return nil, fmt.Errorf("HARNESS: namespace not holdable: %w", err)
		}
		return wrap(shwap.NewRowNamespaceDataID(v.H, v.R, ns, size))
	case "range":
		return wrap(shwap.NewRangeNamespaceDataID(edsIDOf(v.H), v.From, v.To, size))
	case "rangev0":
		return wrap(shwap.NewRangeNamespaceDataIDV0(edsIDOf(v.H), v.From, v.To, size))
	}
	panic("construct: " + v.T)
}

func wrap[T binID](id T, err error) (binID, error) {
	if err != nil {
		return nil, err
	}
	return id, nil
}

func fromBinary(t string, b []byte) (binID, error) {
	switch t {
	case "eds":
		return wrap(shwap.EdsIDFromBinary(b))
	case "row":
		return wrap(shwap.RowIDFromBinary(b))
	case "sample":
		return wrap(shwap.SampleIDFromBinary(b))
	case "nd":
		return wrap(shwap.NamespaceDataIDFromBinary(b))
	case "rnd":
		return wrap(shwap.RowNamespaceDataIDFromBinary(b))
	case "range":
		return wrap(shwap.RangeNamespaceDataIDFromBinary(b))
	case "rangev0":
		return wrap(shwap.RangeNamespaceDataIDV0FromBinary(b))
	}
	panic("fromBinary: " + t)
}

func readFrom(t string, r io.Reader) (binID, int64, error) {
	switch t {
	case "eds":
		var x shwap.EdsID
		n, err := x.ReadFrom(r)
		return x, n, err
	case "row":
		var x shwap.RowID
		n, err := x.ReadFrom(r)
		return x, n, err
	case "sample":
		var x shwap.SampleID
		n, err := x.ReadFrom(r)
		return x, n, err
	case "nd":
		var x shwap.NamespaceDataID
		n, err := x.ReadFrom(r)
		return x, n, err
	case "rnd":
		var x shwap.RowNamespaceDataID
		n, err := x.ReadFrom(r)
		return x, n, err
	case "range":
		var x shwap.RangeNamespaceDataID
		n, err := x.ReadFrom(r)
		return x, n, err
	case "rangev0":
		var x shwap.RangeNamespaceDataIDV0
		n, err := x.ReadFrom(r)
		return x, n, err
	}
	panic("readFrom: " + t)
}

func deref(id binID) any {
	return id
}

// emptyBlock builds the Bitswap block for the identifier exactly like the getter does.
func emptyBlock(v nv, size int) (bitswap.Block, error) {
	switch v.T {
	case "row":
		return bitswap.NewEmptyRowBlock(v.H, v.R, size)
	case "sample":
		return bitswap.NewEmptySampleBlock(v.H, shwap.SampleCoords{Row: v.R, Col: v.C}, size)
	case "rnd":
		ns, err := libshare.NewNamespaceFromBytes([]byte(v.Ns))
		if err != nil {
			return nil, err
		}
		return bitswap.NewEmptyRowNamespaceDataBlock(v.H, v.R, ns, size)
	case "rangev0":
		return bitswap.NewEmptyRangeNamespaceDataBlock(v.H, v.From, v.To, size)
	}
	return nil, nil
}

func blockID(b bitswap.Block) (string, any) {
	switch x := b.(type) {
	case *bitswap.RowBlock:
		return "row", x.ID
	case *bitswap.SampleBlock:
		return "sample", x.ID
	case *bitswap.RowNamespaceDataBlock:
		return "rnd", x.ID
	case *bitswap.RangeNamespaceDataBlock:
		return "rangev0", x.ID
	}
	return "?", nil
}

// ---------------------------------------------------------------- the property's own oracles

const maxInt = int(^uint(0) >> 1)

func inside(v nv, size int) bool {
	in := func(x, n int) bool { return x >= 0 && x < n }
	switch v.T {
	case "row", "rnd":
		return in(v.R, size)
	case "sample":
		return in(v.R, size) && in(v.C, size)
	case "range", "rangev0":
		return in(v.From, size*size) && v.From < v.To && v.To <= size*size
	}
	return true
}

func fieldsFit(v nv) bool {
	f := func(x int, bits uint) bool { return x >= 0 && uint64(x) < (uint64(1)<<bits) }
	switch v.T {
	case "row", "rnd":
		return f(v.R, 16)
	case "sample":
		return f(v.R, 16) && f(v.C, 16)
	case "range":
		return f(v.From, 32) && f(v.To, 32)
	case "rangev0":
		return f(v.From, 16) && f(v.To, 16)
	}
	return true
}

// ---------------------------------------------------------------- driver

type drv struct {
	rep *vh.Report
	pfx string // signature prefix: the property on whose behalf the driver runs
	cid bool   // only the id<->CID obligations (C10)
}

func (d *drv) violate(sig, what string, replay any) { d.rep.Violate(d.pfx+"/"+sig, what, replay) }

func TestDriver(t *testing.T) {
	rep := vh.NewReport()
	d := &drv{rep: rep, pfx: vh.Env("VERIF_SIGPREFIX", "C18"), cid: vh.Env("VERIF_IDS_MODE", "all") == "cid"}
	var cases []mCase
	if p := os.Getenv("VERIF_CASES"); p != "" {
		if err := vh.ReadJSON(p, &cases); err != nil {
			t.Fatalf("reading cases: %v", err)
		}
	}
	for i := range cases {
		c := &cases[i]
		pan, val := vh.Recover(func() {
			switch c.C.Kind {
			case "id":
				d.idCase(c)
			case "raw":
				if !d.cid {
					d.rawCase(c)
				}
			case "cid":
				d.cidCase(c)
			}
		})
		if pan {
			d.violate(c.C.Kind+"/panic", "panic while materialising a TLC case on the real code: "+val, c)
		}
	}
	rep.Set("cases", len(cases))
	if !d.cid {
		d.latent()
		d.jsonSampleID()
		d.arbitraryBytes()
		if os.Getenv("VERIF_CONTAINER_CASES") != "" {
			d.containers(t)
		}
	}
	writeReport(t, rep)
}

// writeReport: vlib iterates over violations/samples/inconclusive, so they must not be JSON null.
func writeReport(t *testing.T, rep *vh.Report) {
	if rep.Violations == nil {
		rep.Violations = []vh.Violation{}
	}
	if rep.Inconclusive == nil {
		rep.Inconclusive = []string{}
	}
	if rep.Samples == nil {
		rep.Samples = []any{}
	}
	if err := rep.Write(); err != nil {
		t.Fatal(err)
	}
}

func short(err error) string {
	if err == nil {
		return "<nil>"
	}
	s := err.Error()
	if len(s) > 160 {
		s = s[:160]
	}
	return s
}

// idCase: constructor -> MarshalBinary -> FromBinary / ReadFrom -> CID -> EmptyBlock
func (d *drv) idCase(c *mCase) {
	v := c.C.ID.nv()
	size := c.C.Size
	t := v.T
	modelAccepts := c.Stage != "refused"
	id, err := construct(v, size)
	if err != nil && strings.HasPrefix(err.Error(), "HARNESS") {
		d.rep.Inconclusivef("ids: %v", err)
		return
	}
	d.rep.Count("id_cases", 1)
	if d.cid && t != "row" && t != "sample" && t != "rnd" && t != "rangev0" {
		return
	}
	if err != nil {
		d.rep.Count("id_refused", 1)
		if modelAccepts {
			d.rep.Inconclusivef("drift: %s constructor refuses %+v size %d (%s) which the specification constructs", t, v, size, short(err))
		}
		return
	}
	d.rep.Count("id_accepted", 1)
	got := normalise(t, deref(id))
	if got != v {
		d.violate(t+"/constructor-alters-field", fmt.Sprintf("constructor returned %+v for %+v", got, v), c)
		return
	}
	// AcceptedIsInside (oracle independent of the model)
	if v.H == 0 || !inside(v, size) {
		d.violate(t+"/accepted-outside-square", fmt.Sprintf("constructor accepted %+v for square size %d", v, size), c)
	} else if !modelAccepts {
		// model refuses (e.g. "cannot be carried by the wire format"); the round trip below decides
		d.rep.Count("id_real_accepts_model_refuses", 1)
	}
	if !d.cid {
		d.binaryRoundTrip(c, t, v, id, modelAccepts)
	}
	d.cidRoundTrip(c, t, v, size, modelAccepts)
}

func (d *drv) binaryRoundTrip(c *mCase, t string, v nv, id binID, modelAccepts bool) {
	b, err := id.MarshalBinary()
	if err != nil {
		d.rep.Count("enc_refused", 1)
		if modelAccepts && c.Stage != "encrefused" {
			d.rep.Inconclusivef("drift: %s MarshalBinary refuses %+v (%s), the specification encodes it", t, v, short(err))
		}
		return
	}
	d.rep.Count("enc_ok", 1)
	trunc := ""
	if !fieldsFit(v) {
		trunc = " (a field does not fit its wire width: the encoder must refuse)"
	}
	back, derr := fromBinary(t, b)
	switch {
	case derr != nil:
		sig := t + "/roundtrip-decode-refuses-own-encoding"
		if trunc != "" {
			sig = t + "/encode-truncates"
		}
		d.violate(sig, fmt.Sprintf("%+v encodes to %x which the decoder refuses: %s%s", v, b, short(derr), trunc), c)
		return
	case normalise(t, deref(back)) != v:
		sig := t + "/roundtrip-value-changed"
		if trunc != "" {
			sig = t + "/encode-truncates"
		}
		d.violate(sig, fmt.Sprintf("%+v encodes to %x which decodes to %+v%s", v, b, normalise(t, deref(back)), trunc), c)
		return
	}
	d.rep.Count("roundtrips_ok", 1)
	if len(b) != idSize[t] {
		d.violate(t+"/encoding-length", fmt.Sprintf("%+v encodes to %d bytes, size constant is %d", v, len(b), idSize[t]), c)
	}
	if modelAccepts && len(c.Wire) > 0 && !bytes.Equal(b, toBytes(c.Wire)) {
		d.rep.Inconclusivef("drift: wire format of %s differs from the specification: real %x, specified %x", t, b, toBytes(c.Wire))
	}
	// WriteTo == MarshalBinary;  ReadFrom consumes exactly the identifier and leaves the rest
	var w bytes.Buffer
	n, werr := id.WriteTo(&w)
	if werr != nil || int(n) != len(b) || !bytes.Equal(w.Bytes(), b) {
		d.violate(t+"/writeto-differs", fmt.Sprintf("%+v: WriteTo gives %x (n=%d, err=%s), MarshalBinary %x", v, w.Bytes(), n, short(werr), b), c)
	}
	rd := bytes.NewReader(append(append([]byte{}, b...), 0xAA, 0xBB))
	rid, rn, rerr := readFrom(t, rd)
	if rerr != nil || int(rn) != len(b) || rd.Len() != 2 || normalise(t, deref(rid)) != v {
		d.violate(t+"/readfrom-roundtrip", fmt.Sprintf("%+v: ReadFrom(%x..) -> %+v n=%d left=%d err=%s", v, b, rid, rn, rd.Len(), short(rerr)), c)
	}
}

func (d *drv) cidRoundTrip(c *mCase, t string, v nv, size int, modelAccepts bool) {
	var blk bitswap.Block
	var err error
	pan, pv := vh.Recover(func() { blk, err = emptyBlock(v, size) })
	if pan {
		d.violate("cid/"+t+"/constructor-panic", pv, c)
		return
	}
	if blk == nil && err == nil {
		return // not a Bitswap type
	}
	if err != nil {
		if modelAccepts {
			d.rep.Inconclusivef("drift: NewEmpty<%s>Block refuses %+v which the specification constructs: %s", t, v, short(err))
		}
		return
	}
	var k cid.Cid
	pan, pv = vh.Recover(func() { k = blk.CID() })
	if pan {
		d.violate("cid/"+t+"/cid-panic", fmt.Sprintf("Block.CID() panics for constructible %+v: %s", v, pv), c)
		return
	}
	d.rep.Count("cid_built", 1)
	if modelAccepts && len(c.Cidw) > 0 && !bytes.Equal(k.Bytes(), toBytes(c.Cidw)) {
		d.rep.Inconclusivef("drift: CID framing of %s differs from the specification: real %x, specified %x", t, k.Bytes(), toBytes(c.Cidw))
	}
	k2, cerr := cid.Cast(k.Bytes())
	if cerr != nil || !k2.Equals(k) {
		d.violate("cid/"+t+"/cast", fmt.Sprintf("cid bytes %x do not cast back: %s", k.Bytes(), short(cerr)), c)
		return
	}
	var eb bitswap.Block
	pan, pv = vh.Recover(func() { eb, err = bitswap.EmptyBlock(k2) })
	if pan {
		d.violate("cid/"+t+"/emptyblock-panic", pv, c)
		return
	}
	if err != nil {
		sig := "cid/" + t + "/id-to-cid-not-invertible"
		d.violate(sig, fmt.Sprintf("CID of constructible %+v (size %d) is refused on the way back: %s", v, size, short(err)), c)
		return
	}
	bt, bid := blockID(eb)
	if bt != t || normalise(t, bid) != v {
		d.violate("cid/"+t+"/id-to-cid-not-invertible",
			fmt.Sprintf("identifier %+v (square size %d) -> CID %s -> identifier %+v: the CID does not name the identifier that was requested", v, size, k, normalise(t, bid)), c)
		return
	}
	if !eb.CID().Equals(k) {
		d.violate("cid/"+t+"/cid-unstable", fmt.Sprintf("%+v: CID %s, after the round trip %s", v, k, eb.CID()), c)
		return
	}
	d.rep.Count("cid_roundtrips_ok", 1)
	if d.rep.Counters["cid_roundtrips_ok"]%97 == 1 {
		d.rep.Sample(map[string]any{"id": v, "size": size, "cid": k.String()})
	}
}

// rawCase: structured malformation -> <T>IDFromBinary / ReadFrom
func (d *drv) rawCase(c *mCase) {
	t := c.C.T
	b := toBytes(c.C.Bytes)
	modelRejects := c.Back.T == "REJECT"
	d.rep.Count("raw_cases", 1)
	id, err := fromBinary(t, b)
	rid, _, rerr := readFrom(t, bytes.NewReader(b))
	if (err == nil) != (rerr == nil) && len(b) <= idSize[t] {
		d.violate(t+"/decode-frombinary-readfrom-disagree", fmt.Sprintf("%x: FromBinary err=%s, ReadFrom err=%s", b, short(err), short(rerr)), c)
	}
	_ = rid
	switch {
	case err == nil && modelRejects:
		d.violate(t+"/decode-accepts-"+c.C.Why, fmt.Sprintf("%s decoder accepts malformed input (%s) %x as %+v", t, c.C.Why, b, normalise(t, deref(id))), c)
	case err != nil && !modelRejects:
		// the input is specified as the encoding of a valid identifier: confirm with the real encoder
		want := c.Back.nv()
		rid, cerr := construct(want, 1024)
		if cerr == nil {
			if rb, merr := rid.MarshalBinary(); merr == nil && bytes.Equal(rb, b) {
				d.violate(t+"/decode-refuses-valid", fmt.Sprintf("%x is the real encoding of %+v, the decoder refuses it: %s", b, want, short(err)), c)
				return
			}
		}
		d.rep.Inconclusivef("drift: %s decoder refuses %x (%s) which the specification decodes to %+v", t, b, short(err), want)
	case err == nil:
		got := normalise(t, deref(id))
		if got != c.Back.nv() {
			d.rep.Inconclusivef("drift: %s decoder reads %x as %+v, the specification as %+v", t, b, got, c.Back.nv())
		}
		if verr := id.Validate(); verr != nil {
			d.violate(t+"/decode-accepts-invalid", fmt.Sprintf("%x decodes to %+v which fails its own Validate: %s", b, got, short(verr)), c)
		}
		if rb, merr := id.MarshalBinary(); merr != nil || !bytes.Equal(rb, b) {
			d.violate(t+"/decode-guesses", fmt.Sprintf("%x decodes to %+v which encodes to %x (%s)", b, got, rb, short(merr)), c)
		}
		d.rep.Count("raw_accepted", 1)
	default:
		d.rep.Count("raw_rejected", 1)
	}
}

// cidCase: malformed CID framing -> cid.Cast + EmptyBlock
func (d *drv) cidCase(c *mCase) {
	b := toBytes(c.Cidw)
	modelRejects := c.Back.T == "REJECT"
	d.rep.Count("cid_cases", 1)
	k, err := cid.Cast(b)
	var blk bitswap.Block
	if err == nil {
		blk, err = bitswap.EmptyBlock(k)
	}
	switch {
	case err == nil && modelRejects:
		bt, bid := blockID(blk)
		d.violate("cid/"+c.C.T+"/accepts-"+c.C.Why, fmt.Sprintf("malformed CID (%s) %x accepted as %s %+v", c.C.Why, b, bt, bid), c)
	case err != nil && !modelRejects:
		d.rep.Inconclusivef("drift: well-formed CID %x refused: %s", b, short(err))
	case err == nil:
		bt, bid := blockID(blk)
		if normalise(bt, bid) != c.Back.nv() {
			d.rep.Inconclusivef("drift: CID %x read as %+v, specified %+v", b, normalise(bt, bid), c.Back.nv())
		}
		if !bytes.Equal(blk.CID().Bytes(), b) {
			d.violate("cid/"+c.C.T+"/cast-guesses", fmt.Sprintf("CID %x is read as a block whose CID is %x", b, blk.CID().Bytes()), c)
		}
		d.rep.Count("cid_accepted", 1)
	default:
		d.rep.Count("cid_rejected", 1)
	}
}

// latent: values no constructor lets through for a protocol-size square, put into the exported
// struct fields directly.  The property quantifies over identifiers "the node can construct ...
// up to the protocol maximum", so a truncation here is recorded, not alarmed.
func (d *drv) latent() {
	e := edsIDOf(1)
	r := shwap.RowID{EdsID: e, RowIndex: 65536 + 3}
	if b, err := r.MarshalBinary(); err == nil {
		if back, derr := shwap.RowIDFromBinary(b); derr != nil || back.RowIndex != r.RowIndex {
			d.rep.Count("latent_truncations_beyond_protocol_max", 1)
			d.rep.Set("latent_row", fmt.Sprintf("RowID{RowIndex:%d} (passes Validate, no protocol-size square admits it) encodes to %x -> RowIndex %d", r.RowIndex, b, back.RowIndex))
		}
	}
	g := shwap.RangeNamespaceDataID{EdsID: e, From: 1<<32 + 5, To: 1<<32 + 9}
	if b, err := g.MarshalBinary(); err == nil {
		if back, derr := shwap.RangeNamespaceDataIDFromBinary(b); derr != nil || back.From != g.From {
			d.rep.Count("latent_truncations_beyond_protocol_max", 1)
		}
	}
}

// jsonSampleID: the JSON form of SampleID over the model's accepted sample cases is covered in
// idCase via jsonRT; here the decoder is given out-of-range fields.
func (d *drv) jsonSampleID() {
	good, _ := shwap.NewSampleID(7, shwap.SampleCoords{Row: 3, Col: 258}, 512)
	jb, err := json.Marshal(good)
	var back shwap.SampleID
	if err != nil || json.Unmarshal(jb, &back) != nil || !good.Equals(back) {
		d.violate("sample/json-roundtrip", fmt.Sprintf("SampleID %+v -> %s -> %+v", good, jb, back), nil)
	}
	d.rep.Count("json_id_roundtrips", 1)
	for _, in := range []struct{ why, js string }{
		{"height0", `{"height":0,"row_index":1,"share_index":1}`},
		{"row<0", `{"height":5,"row_index":-1,"share_index":1}`},
		{"col<0", `{"height":5,"row_index":1,"share_index":-7}`},
		{"missing-fields", `{}`},
	} {
		var s shwap.SampleID
		pan, pv := vh.Recover(func() { err = json.Unmarshal([]byte(in.js), &s) })
		if pan {
			d.violate("sample/json-decode-panic", pv, in)
			continue
		}
		d.rep.Count("json_id_malformed", 1)
		if err == nil && s.Validate() != nil {
			d.violate("sample/json-decode-accepts-"+in.why,
				fmt.Sprintf("SampleID.UnmarshalJSON accepts %s as %+v, which fails its own Validate (%s)", in.js, s, short(s.Validate())), in)
		}
	}
}
