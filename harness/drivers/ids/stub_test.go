package ids

import "testing"

func (d *drv) arbitraryBytes()          {}
func (d *drv) containers(t *testing.T) {}
