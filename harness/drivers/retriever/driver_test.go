// Package retriever binds spec/retriever/Retriever.tla to the real share/eds.Retriever: for every
// (K, availability, corruption) of the model's case table it builds a real square, imports it into an
// in-memory blockstore behind a filtering/recording wrapper (withheld leaves answer NotFound), runs the
// real Retrieve and checks that the observed terminal summary is one the model allows, plus the
// properties on the real result (square bytes, roots, proofs, termination, no requests afterwards).
package retriever

import (
	"context"
	"errors"
	"fmt"
	"os"
	"sort"
	"strings"
	"sync"
	"sync/atomic"
	"testing"
	"time"

	"github.com/ipfs/boxo/blockstore"
	blocks "github.com/ipfs/go-block-format"
	"github.com/ipfs/go-cid"
	"github.com/ipfs/go-datastore"
	dssync "github.com/ipfs/go-datastore/sync"
	format "github.com/ipfs/go-ipld-format"

	"github.com/celestiaorg/celestia-app/v9/pkg/wrapper"
	libshare "github.com/celestiaorg/go-square/v4/share"
	"github.com/celestiaorg/rsmt2d"

	"github.com/celestiaorg/celestia-node/share"
	"github.com/celestiaorg/celestia-node/share/eds"
	"github.com/celestiaorg/celestia-node/share/eds/byzantine"
	"github.com/celestiaorg/celestia-node/share/ipld"

	"verifharness/vh"
)

type caseT struct {
	K       int    `json:"k"`
	Avail   []int  `json:"avail"`
	Corrupt int    `json:"corrupt"`
	Outcome string `json:"outcome"`
	Nq      int    `json:"nq"`
	Axis    string `json:"axis"`
	Idx     int    `json:"idx"`
	Rec     bool   `json:"rec"`
}

type filterBS struct {
	blockstore.Blockstore
	mu       sync.Mutex
	withheld map[cid.Cid]bool
	roots    map[cid.Cid]bool
	rootGets atomic.Int64
	gets     atomic.Int64
}

func (f *filterBS) Get(ctx context.Context, c cid.Cid) (blocks.Block, error) {
	f.gets.Add(1)
	f.mu.Lock()
	w, r := f.withheld[c], f.roots[c]
	f.mu.Unlock()
	if r {
		f.rootGets.Add(1)
	}
	if w {
		return nil, format.ErrNotFound{Cid: c}
	}
	return f.Blockstore.Get(ctx, c)
}

func key(k int, avail []int, corrupt int) string {
	a := append([]int(nil), avail...)
	sort.Ints(a)
	return fmt.Sprintf("%d|%v|%d", k, a, corrupt)
}

func TestDriver(t *testing.T) {
	rep := vh.NewReport()
	defer func() {
		if err := rep.Write(); err != nil {
			t.Fatal(err)
		}
	}()
	var cases []caseT
	if err := vh.ReadJSON(os.Getenv("VERIF_CASES"), &cases); err != nil {
		t.Fatalf("cases: %v", err)
	}
	table := map[string][]caseT{}
	var keys []string
	for _, c := range cases {
		k := key(c.K, c.Avail, c.Corrupt)
		if _, ok := table[k]; !ok {
			keys = append(keys, k)
		}
		table[k] = append(table[k], c)
	}
	sort.Strings(keys)
	rng := vh.Rand()
	rng.Shuffle(len(keys), func(i, j int) { keys[i], keys[j] = keys[j], keys[i] })
	maxCases := vh.EnvInt("VERIF_MAXCASES", 60)
	if len(keys) > maxCases {
		keys = keys[:maxCases]
	}
	eds.RetrieveQuadrantTimeout = 25 * time.Millisecond
	for _, k := range keys {
		c := table[k][0]
		ok, dump := vh.WithWatchdog(120*time.Second, func() {
			p, val := vh.Recover(func() { runCase(t, rep, c, table) })
			if p {
				rep.Inconclusivef("panic in case %s: %s", k, val)
			}
		})
		if !ok {
			rep.Violate("X_retriever/no-termination", "Retrieve did not return within 120s after ctx end; case "+k, dump[:min(len(dump), 4000)])
			return
		}
	}
}

func runCase(t *testing.T, rep *vh.Report, c caseT, table map[string][]caseT) {
	K, W := c.K, 2*c.K
	ctx0 := context.Background()
	shares, err := libshare.RandShares(K * K)
	if err != nil {
		t.Fatal(err)
	}
	sq, err := rsmt2d.ComputeExtendedDataSquare(libshare.ToBytes(shares), share.DefaultRSMT2DCodec(), wrapper.NewConstructor(uint64(K)))
	if err != nil {
		t.Fatal(err)
	}
	corrupt := c.Corrupt
	if corrupt == 999 {
		corrupt = -1
	}
	if corrupt >= 0 {
		flat := sq.Flattened()
		b := append([]byte(nil), flat[corrupt]...)
		b[len(b)-1] ^= 0xff
		b[len(b)-7] ^= 0x55
		flat[corrupt] = b
		sq, err = rsmt2d.ImportExtendedDataSquare(flat, share.DefaultRSMT2DCodec(), wrapper.NewConstructor(uint64(K)))
		if err != nil {
			t.Fatal(err)
		}
	}
	fbs := &filterBS{Blockstore: blockstore.NewBlockstore(dssync.MutexWrap(datastore.NewMapDatastore())),
		withheld: map[cid.Cid]bool{}, roots: map[cid.Cid]bool{}}
	bserv := ipld.NewBlockservice(fbs, nil)
	if err := ipld.ImportEDS(ctx0, sq, bserv); err != nil {
		t.Fatal(err)
	}
	roots, err := share.NewAxisRoots(sq)
	if err != nil {
		t.Fatal(err)
	}
	// leaf CIDs per cell
	leaf := make([]cid.Cid, W*W)
	for r := 0; r < W; r++ {
		for col := 0; col < W; col++ {
			nd, err := ipld.GetLeaf(ctx0, bserv, ipld.MustCidFromNamespacedSha256(roots.RowRoots[r]), col, W)
			if err != nil {
				t.Fatal(err)
			}
			leaf[r*W+col] = nd.Cid()
		}
	}
	in := map[int]bool{}
	for _, a := range c.Avail {
		in[a] = true
	}
	for i := 0; i < W*W; i++ {
		if !in[i] {
			fbs.withheld[leaf[i]] = true
		}
	}
	var eff []int
	for i := 0; i < W*W; i++ {
		if !fbs.withheld[leaf[i]] {
			eff = append(eff, i)
		}
	}
	allowed, okk := table[key(K, eff, c.Corrupt)]
	if !okk {
		rep.Count("cases_skipped_alias", 1)
		return
	}
	for _, rr := range roots.RowRoots {
		fbs.roots[ipld.MustCidFromNamespacedSha256(rr)] = true
	}
	for _, rr := range roots.ColumnRoots {
		fbs.roots[ipld.MustCidFromNamespacedSha256(rr)] = true
	}
	fbs.gets.Store(0)
	fbs.rootGets.Store(0)
	rec := allowed[0].Rec
	full := len(eff) == W*W
	budget := 900 * time.Millisecond
	if rec || (corrupt >= 0 && full) {
		budget = 60 * time.Second
	}
	ctx, cancel := context.WithTimeout(ctx0, budget)
	defer cancel()
	out, rerr := eds.NewRetriever(bserv).Retrieve(ctx, roots)
	nq := int(fbs.rootGets.Load()) / K
	replay := map[string]any{"k": K, "avail": eff, "corrupt": corrupt, "err": fmt.Sprint(rerr), "nq": nq}
	rep.Count("cases_run", 1)
	badRow, badCol := -1, -1
	if corrupt >= 0 {
		badRow, badCol = corrupt/W, corrupt%W
	}
	var byz *byzantine.ErrByzantine
	outcome := ""
	switch {
	case rerr == nil:
		outcome = "ok"
		rep.Count("outcome_ok", 1)
		if out == nil || !sq.Equals(out) {
			rep.Violate("X_retriever/ok-square-differs", "Retrieve returned success with a square different from the committed one", replay)
			return
		}
		or, err := share.NewAxisRoots(out)
		if err != nil || !or.Equals(roots) {
			rep.Violate("X_retriever/ok-roots-differ", "returned square does not have the committed roots", replay)
			return
		}
		if corrupt >= 0 {
			rep.Violate("X_retriever/ok-on-byzantine-square", "Retrieve returned success for a square whose roots commit to a non-codeword", replay)
			return
		}
	case errors.As(rerr, &byz):
		outcome = "byz"
		rep.Count("outcome_byz", 1)
		if corrupt < 0 {
			rep.Violate("X_retriever/byz-on-good-square", "ErrByzantine for a correctly encoded square: "+rerr.Error(), replay)
			return
		}
		if !((byz.Axis == rsmt2d.Row && int(byz.Index) == badRow) || (byz.Axis == rsmt2d.Col && int(byz.Index) == badCol)) {
			rep.Violate("X_retriever/byz-wrong-line", "ErrByzantine names a line that is a valid codeword: "+rerr.Error(), replay)
			return
		}
		n := 0
		for i, s := range byz.Shares {
			if s == nil {
				continue
			}
			n++
			if !s.Validate(roots, byz.Axis, int(byz.Index), i) {
				rep.Violate("X_retriever/byz-proof-invalid", fmt.Sprintf("share proof %d of %v does not verify against the DAH", i, rerr), replay)
				return
			}
			r, cc := int(byz.Index), i
			if byz.Axis == rsmt2d.Col {
				r, cc = i, int(byz.Index)
			}
			if string(s.Share.ToBytes()) != string(sq.GetCell(uint(r), uint(cc))) {
				rep.Violate("X_retriever/byz-share-not-committed", "a share of the befp is not the committed share", replay)
				return
			}
		}
		if n < K {
			rep.Violate("X_retriever/byz-too-few-proofs", fmt.Sprintf("ErrByzantine carries %d < %d shares with proof", n, K), replay)
			return
		}
		rep.Count("byz_proofs_verified", int64(n))
	case errors.Is(rerr, context.DeadlineExceeded) || errors.Is(rerr, context.Canceled):
		outcome = "cancelled"
		rep.Count("outcome_cancelled", 1)
	case strings.Contains(rerr.Error(), "failed to collect proof"):
		outcome = "prooffail"
		rep.Count("outcome_prooffail", 1)
	default:
		rep.Inconclusivef("drift: unexpected error class %v in case %v", rerr, replay)
		return
	}
	if rec && outcome != "ok" {
		rep.Violate("X_retriever/recoverable-not-retrieved", fmt.Sprintf("a recoverable set of correct shares is served but Retrieve ended with %v", rerr), replay)
		return
	}
	if corrupt >= 0 && full && outcome != "byz" {
		rep.Violate("X_retriever/byzantine-not-reported", fmt.Sprintf("fully served non-codeword square but Retrieve ended with %v", rerr), replay)
		return
	}
	// membership in the model's terminal summaries
	match := false
	for _, a := range allowed {
		if a.Outcome != outcome {
			continue
		}
		switch outcome {
		case "ok":
			match = match || a.Nq <= nq
		case "byz":
			ax := "row"
			if byz.Axis == rsmt2d.Col {
				ax = "col"
			}
			match = match || (a.Axis == ax && a.Idx == int(byz.Index))
		default:
			match = true
		}
	}
	if !match {
		rep.Inconclusivef("drift: outcome %s (nq=%d) not among the model's terminal summaries for %v", outcome, nq, replay)
		return
	}
	rep.Count("summaries_matched", 1)
	rep.Sample(replay)
	// (5) no requests after the session finished: let in-flight goroutines drain, then watch 4 ticks
	// A leaked request loop asks for K more roots every tick; one late read of a delayed goroutine is not a leak.
	if nq < 6 {
		time.Sleep(10 * eds.RetrieveQuadrantTimeout)
		grew := 0
		for w := 0; w < 3; w++ {
			g1 := fbs.rootGets.Load()
			time.Sleep(3 * eds.RetrieveQuadrantTimeout)
			if fbs.rootGets.Load() != g1 {
				grew++
			}
		}
		rep.Count("after_finish_probes", 1)
		if grew == 3 {
			rep.Violate("X_retriever/requests-after-finish", fmt.Sprintf("quadrant roots are still being requested long after Retrieve returned (%s, nq=%d)", outcome, nq), replay)
		}
	}
}
