package discdrv

import (
	"context"
	"encoding/json"
	"fmt"
	"os"
	"reflect"
	"regexp"
	"runtime"
	"sort"
	"strings"
	"sync"
	"testing"
	"time"

	"github.com/ipfs/go-datastore"
	dssync "github.com/ipfs/go-datastore/sync"
	"github.com/libp2p/go-libp2p/core/host"
	"github.com/libp2p/go-libp2p/core/network"
	"github.com/libp2p/go-libp2p/core/peer"
	"github.com/libp2p/go-libp2p/p2p/discovery/backoff"
	mocknet "github.com/libp2p/go-libp2p/p2p/net/mock"
	"github.com/libp2p/go-libp2p/p2p/net/conngater"

	"github.com/celestiaorg/celestia-node/share/shwap/p2p/discovery"
	"github.com/celestiaorg/celestia-node/share/shwap/p2p/shrex/peers"

	"verifharness/vh"
)

// ---- the plan written by checks/X_discovery.py

type Plan struct {
	Behs    []Beh `json:"behs"`
	GCProbe bool  `json:"gc_probe"` // run the connector's real GC loop once (takes a minute of wall time)
	Soak    int   `json:"soak"`     // free-running rounds on a mocknet (0 = off)
}

type Beh struct {
	ID      string   `json:"id"`
	Mode    string   `json:"mode"` // "disc": the real Discovery; "api": a bare limitedSet
	Limit   int      `json:"limit"`
	Delay   int      `json:"delay"`
	Peers   []string `json:"peers"`
	Callers []string `json:"callers"`
	Atomic  bool     `json:"atomic_peers"` // model variant without the gEmpty position (not replayable on this code)
	Expect  string   `json:"expect"`       // witness: the property the model says fails in this behaviour
	Fixed   bool     `json:"fixed"`        // ... of the model variant WITHOUT a fix: the real code is expected not to follow
	Steps   []Step   `json:"steps"`
}

type Step struct {
	A      map[string]any `json:"a"`
	O      *Obs           `json:"o"`
	Stable bool           `json:"stable"`
}

type DlObs struct {
	P  string `json:"p"`
	Pc string `json:"pc"`
}

type CallerObs struct {
	Pc  string   `json:"pc"`
	Res []string `json:"res"`
	Err bool     `json:"err"`
	Can bool     `json:"can"`
}

// Obs is the observable state: of the model (from TLC) or of the real objects (observe).
type Obs struct {
	Set   []string             `json:"set"`
	View  []string             `json:"view"`
	Net   map[string]int       `json:"net"`
	Prot  []string             `json:"prot"`
	Hb    []string             `json:"hb"`
	Rec   []string             `json:"rec"`
	Conn  []string             `json:"conn"`
	Evq   []string             `json:"evq"`
	Wk    [][2]string          `json:"wk"`
	Dl    DlObs                `json:"dl"`
	Cl    map[string]CallerObs `json:"cl"`
	Busy  bool                 `json:"busy"`
	Quiet bool                 `json:"quiet"`
	Ok    map[string]bool      `json:"ok,omitempty"`
	finds int                  // FindPeers calls so far (real side only)
	recT  map[string]time.Time // deadlines of the back-off records, read between at0 and at1 together with Hb
	at0   time.Time
	at1   time.Time
}

const (
	tick    = time.Hour
	settleD = 15 * time.Second
)

var gatePc = map[string]string{"conn": "gConn", "dial": "gDial", "dialret": "gDialRet", "cb+": "gCb", "prot": "gProt"}

// ---- one replay

type caller struct {
	name     string
	cancel   context.CancelFunc
	done     chan struct{}
	res      []peer.ID
	err      error
	released bool // past the "empty" gate
	canceled bool
}

type run struct {
	rep   *vh.Report
	b     *Beh
	e     *env
	d     *discovery.Discovery
	set   discovery.VerifSet
	cn    discovery.VerifConnector
	mgr   *peers.Manager // the real shrex peer manager, fed by the same callbacks (as nodebuilder wires it)
	stop  func()
	conn  map[string]bool // the environment as the model dictates it
	evq   []string
	live  map[string]int // delivered peer -> value of exits[p] at delivery
	rounds, finds int
	dlUnconfirmed bool
	callers       map[string]*caller
	all           []*caller // every caller ever started in this run (CReset forgets them in callers)
	lastAdd       *bool  // result of the last direct Add
	contact       string // peer a worker has just been in contact with (dial returned / found connected)
	fullAt        map[string]bool // peers delivered while the real set was at (or above) its limit
}

func newRun(rep *vh.Report, b *Beh) (*run, error) {
	r := &run{rep: rep, b: b, e: newEnv(b.Peers), conn: map[string]bool{}, live: map[string]int{}, callers: map[string]*caller{}}
	if b.Mode == "api" {
		r.set = discovery.VerifNewSet(uint(b.Limit))
		discovery.VerifSetHook(r.e.hook(r.set.Raw()))
		r.stop = func() { r.e.closeAll(); r.joinCallers(); discovery.VerifSetHook(nil) }
		return r, nil
	}
	h := newFakeHost(r.e)
	mgr, err := newManager()
	if err != nil {
		return nil, err
	}
	r.mgr = mgr
	// the harness's callback is the gate; behind it the report reaches the real peer manager (UpdateNodePool), the
	// way nodebuilder/share/p2p_constructors.go chains it
	d, err := discovery.NewDiscovery(&discovery.Parameters{PeersLimit: uint(b.Limit), AdvertiseInterval: time.Hour},
		h, &stubDisc{r.e}, "full", "v1", discovery.WithOnPeersUpdate(r.e.callback), discovery.WithOnPeersUpdate(mgr.UpdateNodePool))
	if err != nil {
		return nil, err
	}
	d.VerifSetBackoffFactory(backoff.NewFixedBackoff(time.Duration(b.Delay) * tick))
	r.d, r.set, r.cn = d, d.VerifSet(), d.VerifConnector()
	r.e.topicTag = d.VerifTopic()
	discovery.VerifSetHook(r.e.hook(d, r.set.Raw()))
	if err := d.Start(context.Background()); err != nil {
		return nil, err
	}
	r.stop = func() {
		r.e.closeAll()
		r.joinCallers()
		_ = d.Stop(context.Background())
		r.e.closeFind()
		discovery.VerifSetHook(nil)
	}
	return r, nil
}

// joinCallers ends every Peers(ctx) call of this run: a goroutine left in the select of limitedSet.Peers would be
// counted by parkedInPeers in the next run.
func (r *run) joinCallers() {
	for _, c := range r.all {
		c.cancel()
	}
	for _, c := range r.all {
		select {
		case <-c.done:
		case <-time.After(settleD):
			r.rep.Inconclusivef("a Peers(ctx) call of behaviour %s did not return after its context was cancelled", r.b.ID)
		}
	}
}

// newManager builds a shrex peer manager like the archival one of nodebuilder (no shrex-sub pools). It is not
// started: UpdateNodePool works on the node pool alone. Host and gater are shared by all runs (a mocknet host per
// behaviour would leave its goroutines behind).
var (
	mgrOnce  sync.Once
	mgrHost  host.Host
	mgrGater *conngater.BasicConnectionGater
	mgrErr   error
)

func newManager() (*peers.Manager, error) {
	mgrOnce.Do(func() {
		mgrHost, mgrErr = mocknet.New().GenPeer()
		if mgrErr == nil {
			mgrGater, mgrErr = conngater.NewBasicConnectionGater(dssync.MutexWrap(datastore.NewMapDatastore()))
		}
	})
	if mgrErr != nil {
		return nil, mgrErr
	}
	return peers.NewManager(peers.Parameters{PoolValidationTimeout: time.Minute, PeerCooldown: time.Second, GcInterval: time.Hour,
		EnableBlackListing: false}, mgrHost, mgrGater, "verif")
}

func names(e *env, ids []peer.ID) []string {
	out := make([]string, 0, len(ids))
	for _, id := range ids {
		out = append(out, e.name(id))
	}
	sort.Strings(out)
	return out
}

var reGoroutine = regexp.MustCompile(`(?m)^goroutine \d+ \[([^\]]*)\]:`)

// parkedInPeers counts the goroutines blocked in the select of limitedSet.Peers.
func parkedInPeers() int {
	buf := make([]byte, 1<<20)
	for {
		k := runtime.Stack(buf, true)
		if k < len(buf) {
			buf = buf[:k]
			break
		}
		buf = make([]byte, 2*len(buf)) // the dump was cut off
	}
	n := 0
	for _, g := range strings.Split(string(buf), "\n\n") {
		m := reGoroutine.FindStringSubmatch(g)
		if m == nil || !strings.HasPrefix(m[1], "select") {
			continue
		}
		if strings.Contains(g, "discovery.(*limitedSet).Peers") && !strings.Contains(g, "discovery.verifEv") {
			n++
		}
	}
	return n
}

// observe projects the real objects and the harness's gate table onto Obs.
func (r *run) observe() *Obs {
	e := r.e
	o := &Obs{Net: map[string]int{}, Cl: map[string]CallerObs{}, Set: names(e, r.set.Snapshot())}
	for _, p := range r.b.Peers {
		o.Net[p] = 0
	}
	e.mu.Lock()
	view := map[string]bool{}
	for _, c := range e.cbLog {
		if c.Added {
			o.Net[c.P]++
			view[c.P] = true
		} else {
			o.Net[c.P]--
			delete(view, c.P)
		}
	}
	if r.mgr != nil {
		// the peer manager's pool of discovered nodes IS the view; the callback log must agree with it
		nodes := r.mgr.VerifNodes()
		for _, p := range r.b.Peers {
			if nodes.Has(e.ids[p]) != view[p] {
				o.View = append(o.View, "pool-differs-from-callback-log:"+p)
			}
			if nodes.Has(e.ids[p]) {
				o.View = append(o.View, p)
			}
		}
	} else {
		for p := range view {
			o.View = append(o.View, p)
		}
	}
	for p := range e.prot {
		o.Prot = append(o.Prot, p)
	}
	atGate := map[string]bool{}
	o.Dl = DlObs{"-", "recv"}
	for _, g := range e.pending {
		if pc, ok := gatePc[g.kind]; ok {
			o.Wk = append(o.Wk, [2]string{g.p, pc})
			atGate[g.p] = true
		}
		switch g.kind {
		case "unprot":
			o.Dl = DlObs{g.p, "gUnprot"}
		case "cb-":
			o.Dl = DlObs{g.p, "gCb"}
		}
	}
	for p, base := range r.live {
		if e.exits[p] > base {
			delete(r.live, p)
		} else if !atGate[p] {
			o.Wk = append(o.Wk, [2]string{p, "running"})
		}
	}
	o.Busy = r.rounds != e.discExit
	finds := e.finds
	e.mu.Unlock()
	if o.Dl.Pc != "recv" {
		r.dlUnconfirmed = false
	} else if r.dlUnconfirmed {
		o.Dl = DlObs{"?", "running"}
	}
	o.finds = finds
	if r.d != nil {
		o.recT = map[string]time.Time{}
		o.at0 = time.Now()
		for p, t := range r.cn.Records() {
			o.Rec = append(o.Rec, e.name(p))
			o.recT[e.name(p)] = t
		}
		for _, p := range r.b.Peers {
			if r.cn.HasBackoff(e.ids[p]) {
				o.Hb = append(o.Hb, p)
			}
		}
		o.at1 = time.Now()
	}
	unparked := 0
	for _, c := range r.callers {
		select {
		case <-c.done:
			o.Cl[c.name] = CallerObs{Pc: "ret", Res: names(e, c.res), Err: c.err != nil, Can: c.canceled}
		default:
			switch {
			case e.has("empty", c.name):
				o.Cl[c.name] = CallerObs{Pc: "gEmpty", Can: c.canceled}
			case c.released:
				o.Cl[c.name] = CallerObs{Pc: "parked", Can: c.canceled}
				unparked++
			default:
				o.Cl[c.name] = CallerObs{Pc: "running"}
			}
		}
	}
	if unparked > 0 && parkedInPeers() != unparked {
		for n, c := range o.Cl {
			if c.Pc == "parked" {
				c.Pc = "running"
				o.Cl[n] = c
			}
		}
	}
	for _, c := range r.b.Callers {
		if _, ok := o.Cl[c]; !ok {
			o.Cl[c] = CallerObs{Pc: "idle"}
		}
	}
	for p, c := range r.conn {
		if c {
			o.Conn = append(o.Conn, p)
		}
	}
	o.Evq = append([]string{}, r.evq...)
	for _, s := range []*[]string{&o.Set, &o.View, &o.Prot, &o.Hb, &o.Rec, &o.Conn} {
		sort.Strings(*s)
		if *s == nil {
			*s = []string{}
		}
	}
	sort.Slice(o.Wk, func(i, j int) bool { return o.Wk[i][0]+o.Wk[i][1] < o.Wk[j][0]+o.Wk[j][1] })
	o.Quiet = len(o.Wk) == 0 && o.Dl.Pc == "recv" && len(r.evq) == 0
	return o
}

// same compares what both sides can observe.
func (r *run) same(m, o *Obs) (bool, string) {
	type cmp struct {
		k    string
		a, b any
	}
	norm := func(x [][2]string) [][2]string {
		if x == nil {
			return [][2]string{}
		}
		return x
	}
	cl := func(x map[string]CallerObs) map[string]CallerObs {
		out := map[string]CallerObs{}
		for k, v := range x {
			if v.Res == nil {
				v.Res = []string{}
			}
			if v.Pc != "gEmpty" && v.Pc != "parked" && v.Pc != "ret" {
				v.Can = false
			}
			out[k] = v
		}
		return out
	}
	cs := []cmp{{"set", m.Set, o.Set}, {"callers", cl(m.Cl), cl(o.Cl)}}
	if r.b.Mode != "api" {
		cs = append(cs, cmp{"view", m.View, o.View}, cmp{"net", m.Net, o.Net}, cmp{"protected", m.Prot, o.Prot},
			cmp{"hasBackoff", m.Hb, o.Hb}, cmp{"records", m.Rec, o.Rec}, cmp{"workers", norm(m.Wk), norm(o.Wk)},
			cmp{"disconnectsLoop", m.Dl, o.Dl}, cmp{"FindPeers calls", r.finds, o.finds})
		// the real loop leaves a cancelled or closed round by itself (LoopSeesCancel, RoundEnd are silent): it may
		// be ahead of the model, never behind
		if !m.Busy {
			cs = append(cs, cmp{"round running", m.Busy, o.Busy})
		}
	}
	for _, c := range cs {
		if !reflect.DeepEqual(c.a, c.b) {
			ja, _ := json.Marshal(c.a)
			jb, _ := json.Marshal(c.b)
			return false, fmt.Sprintf("%s: model %s, real %s", c.k, ja, jb)
		}
	}
	return true, ""
}

// barrier makes sure disconnectsLoop is back at its select: it sends an event the loop ignores.
func (r *run) barrier() {
	dl := time.Now().Add(settleD)
	for time.Now().Before(dl) {
		for _, g := range r.e.pendingList() {
			if g[0] == "unprot" || g[0] == "cb-" {
				return // Discard is under way: the loop is not at its select
			}
		}
		if r.e.sendEvent(r.b.Peers[0], network.Connected, 2*time.Millisecond) {
			r.dlUnconfirmed = false
			return
		}
	}
}

// atRest: every real goroutine the harness knows of is blocked at a gate, parked or gone -- nothing will change
// by itself any more.
func atRest(o *Obs) bool {
	for _, w := range o.Wk {
		if w[1] == "running" {
			return false
		}
	}
	for _, c := range o.Cl {
		if c.Pc == "running" {
			return false
		}
	}
	return o.Dl.Pc != "running"
}

func (r *run) settle(m *Obs) (bool, *Obs, string) {
	if r.dlUnconfirmed && m.Dl.Pc == "recv" {
		r.barrier()
	}
	dl := time.Now().Add(settleD)
	sleep := 20 * time.Microsecond
	var restSince time.Time
	for {
		o := r.observe()
		ok, why := r.same(m, o)
		if ok || time.Now().After(dl) {
			return ok, o, why
		}
		// different and at rest for a while (goroutines that are about to start would show up within it; a round
		// that should have ended, a result that should have come are waited for in full)
		if atRest(o) && !(m.Busy != o.Busy) && !strings.HasPrefix(why, "callers") && !strings.HasPrefix(why, "FindPeers") {
			if restSince.IsZero() {
				restSince = time.Now()
			} else if time.Since(restSince) > 300*time.Millisecond {
				return false, o, why
			}
		} else {
			restSince = time.Time{}
		}
		time.Sleep(sleep)
		if sleep < 5*time.Millisecond {
			sleep *= 2
		}
	}
}

func str(a map[string]any, k string) string {
	s, _ := a[k].(string)
	return s
}

func boolean(a map[string]any, k string) bool {
	b, _ := a[k].(bool)
	return b
}

// do performs one action of the model on the real objects. Internal steps need nothing: the real goroutine
// runs on by itself until its next gate.
func (r *run) do(a map[string]any) error {
	e := r.e
	p := str(a, "p")
	need := func(kind, who string, v any) error {
		if !e.release(kind, who, v) {
			return fmt.Errorf("no goroutine is at gate %q for %q (pending: %v)", kind, who, e.pendingList())
		}
		return nil
	}
	switch str(a, "a") {
	case "LoopDiscover":
		if !e.waitGate("discover", "", settleD) {
			return fmt.Errorf("the discovery loop does not come back to discover()")
		}
		r.rounds++
		if boolean(a, "open") {
			r.finds++
		}
		return need("discover", "", nil)
	case "Deliver":
		if r.fullAt == nil {
			r.fullAt = map[string]bool{}
		}
		r.fullAt[p] = int(r.set.Size()) >= r.b.Limit && len(r.evq) == 0 && r.e.pendingCount("unprot")+r.e.pendingCount("cb-") == 0 && !r.dlUnconfirmed
		e.mu.Lock()
		r.live[p] = e.exits[p]
		e.mu.Unlock()
		if msg := e.deliver(p, settleD); msg != "" {
			delete(r.live, p)
			return fmt.Errorf("deliver %s: %s", p, msg)
		}
	case "CloseFind":
		e.closeFind()
	case "LoopSeesCancel", "RoundEnd", "WStart", "WSize", "WHasBackoff", "WBackoffConnected", "WBackoffDial", "WWake", "WFin",
		"DContains", "DBackoff", "DRemove":
	case "WAdd":
		if r.b.Mode == "api" {
			if r.lastAdd == nil || *r.lastAdd != boolean(a, "added") {
				return fmt.Errorf("Add(%s) returned %v, model: added=%v", p, r.lastAdd, boolean(a, "added"))
			}
			r.lastAdd = nil
		}
	case "WConnectedness":
		if boolean(a, "connected") {
			r.contact = p
		}
		return need("conn", p, boolean(a, "connected"))
	case "WDial":
		if boolean(a, "ok") {
			r.conn[p] = true
		}
		return need("dial", p, boolean(a, "ok"))
	case "WDialReturn":
		r.contact = p
		return need("dialret", p, nil)
	case "WCallback":
		return need("cb+", p, nil)
	case "WProtect":
		return need("prot", p, nil)
	case "DRecv":
		if len(r.evq) == 0 || r.evq[0] != p {
			return fmt.Errorf("harness: event queue %v, model receives %s", r.evq, p)
		}
		r.evq = r.evq[1:]
		r.dlUnconfirmed = true
		if !e.sendEvent(p, network.NotConnected, settleD) {
			return fmt.Errorf("disconnectsLoop does not take the event")
		}
	case "DUnprotect":
		return need("unprot", p, nil)
	case "DCallback":
		r.dlUnconfirmed = true
		return need("cb-", p, nil)
	case "EnvDrop":
		r.conn[p] = false
		r.evq = append(r.evq, p)
	case "EnvInbound":
		r.conn[p] = true
	case "Tick":
		if r.d != nil {
			r.cn.Age(tick)
		}
	case "CCall":
		c := str(a, "c")
		ctx, cancel := context.WithCancel(context.Background())
		cl := &caller{name: c, cancel: cancel, done: make(chan struct{}), released: r.b.Atomic}
		r.callers[c] = cl
		r.all = append(r.all, cl)
		e.mu.Lock()
		e.curCall = c
		e.mu.Unlock()
		go func() {
			defer close(cl.done)
			if r.d != nil {
				cl.res, cl.err = r.d.Peers(ctx)
			} else {
				cl.res, cl.err = r.set.Peers(ctx)
			}
		}()
		// the call returns at once or reaches the hook: wait, so that the attribution of the gate is unambiguous
		dl := time.Now().Add(settleD)
		for time.Now().Before(dl) && !e.has("empty", c) {
			select {
			case <-cl.done:
				return nil
			default:
				time.Sleep(50 * time.Microsecond)
			}
		}
	case "CPark":
		c := str(a, "c")
		r.callers[c].released = true
		return need("empty", c, nil)
	case "CCancel":
		c := r.callers[str(a, "c")]
		c.canceled = true
		c.cancel()
	case "CReset":
		delete(r.callers, str(a, "c"))
	case "ApiAdd":
		added := r.set.Add(e.ids[p])
		r.lastAdd = &added
	case "ApiRemove":
		r.set.Remove(e.ids[p])
	default:
		return fmt.Errorf("harness: action %q cannot be replayed", str(a, "a"))
	}
	return nil
}

// monitors evaluates the properties on the REAL observable state (true = holds).
func (r *run) monitors(o *Obs) map[string]bool {
	in := func(xs []string, x string) bool {
		for _, y := range xs {
			if y == x {
				return true
			}
		}
		return false
	}
	m := map[string]bool{"hardLimit": len(o.Set) <= r.b.Limit, "sizeBound": len(o.Set) <= 2*r.b.Limit-1,
		"inSetConnected": true, "inOrder": true, "exactlyOnce": true, "view": true, "stranded": true, "prot": true,
		"peersResult": true, "dial": true, "cancel": true, "hbConsistent": true, "contact": true, "enough": true}
	if r.b.Mode == "api" {
		m["hardLimit"], m["sizeBound"] = true, true // a bare set is not limited by anything
	}
	for _, c := range o.Cl {
		if c.Pc == "parked" && len(o.Set) > 0 {
			m["stranded"] = false
		}
		if c.Pc == "ret" && ((c.Err && (!c.Can || len(c.Res) > 0)) || (!c.Err && len(c.Res) == 0)) {
			m["peersResult"] = false
		}
	}
	for _, c := range r.callers {
		// a cancelled caller that is still inside Peers when the harness stops waiting for it
		select {
		case <-c.done:
		default:
			if c.canceled && o.Cl[c.name].Pc != "gEmpty" {
				m["cancel"] = false
			}
		}
	}
	if r.b.Mode == "api" {
		return m
	}
	// the connector against its own records: HasBackoff(p) <=> a record exists and its deadline lies ahead; a contact
	// leaves a deadline one back-off ahead
	for _, p := range r.b.Peers {
		t, ok := o.recT[p]
		if !(ok && !t.Before(o.at0) && !t.After(o.at1)) && in(o.Hb, p) != (ok && t.After(o.at1)) {
			m["hbConsistent"] = false
		}
		if p == r.contact {
			want := o.at1.Add(time.Duration(r.b.Delay) * tick)
			if !ok || t.After(want) || t.Before(want.Add(-2*time.Minute)) || !in(o.Hb, p) {
				m["contact"] = false
			}
		}
	}
	// a peer handed over while the set was at its limit (and nothing was removing members) is skipped:
	// its worker never asks for the peer's connectedness
	for _, w := range o.Wk {
		if r.fullAt[w[0]] && w[1] != "running" {
			m["enough"] = false
		}
	}
	for _, p := range o.Set {
		if !r.conn[p] && !in(r.evq, p) && !(o.Dl.P == p && (o.Dl.Pc == "gUnprot" || o.Dl.Pc == "running")) {
			m["inSetConnected"] = false
		}
	}
	for _, p := range r.b.Peers {
		n := o.Net[p]
		if n != 0 && n != 1 {
			m["inOrder"] = false
		}
		for _, w := range o.Wk {
			if w[0] == p && w[1] == "gCb" {
				n++
			}
			if w[0] == p && w[1] == "gDial" && in(o.Hb, p) {
				m["dial"] = false
			}
		}
		if o.Dl.P == p && o.Dl.Pc == "gCb" {
			n--
		}
		want := 0
		if in(o.Set, p) {
			want = 1
		}
		if n != want {
			m["exactlyOnce"] = false
		}
	}
	if o.Quiet && !(reflect.DeepEqual(o.View, o.Set) && reflect.DeepEqual(o.Prot, o.Set)) {
		m["view"] = false
	}
	for _, p := range o.Prot {
		if !in(o.Set, p) && !(o.Dl.P == p && o.Dl.Pc == "gUnprot") {
			m["prot"] = false
		}
	}
	return m
}

// alwaysHold are the monitors whose property is an invariant of the model as it is.
var alwaysHold = map[string]bool{"sizeBound": true, "enough": true, "exactlyOnce": true, "peersResult": true, "cancel": true, "hbConsistent": true,
	"contact": true}

type result struct {
	steps      int
	followed   bool
	drift      string
	viol       int
	reproduced map[string]bool
}

func replay(rep *vh.Report, b *Beh) (res result) {
	res.reproduced = map[string]bool{}
	r, err := newRun(rep, b)
	if err != nil {
		res.drift = "setup: " + err.Error()
		return
	}
	defer r.stop()
	trail := []any{}
	violate := func(k, what string, i int, o *Obs) {
		res.viol++
		rep.Violate("X_discovery/"+k, fmt.Sprintf("behaviour %s step %d: %s", b.ID, i, what),
			map[string]any{"behaviour": b.ID, "mode": b.Mode, "limit": b.Limit, "actions": trail, "real": o, "model": b.Steps[i].O})
	}
	prevSize, prevFinds := 0, 0
	for i, st := range b.Steps {
		trail = append(trail, st.A)
		name := str(st.A, "a")
		if name == "LoopDiscover" {
			prevSize, prevFinds = int(r.set.Size()), r.e.findsNow()
		}
		var derr error
		if pan, val := vh.Recover(func() { derr = r.do(st.A) }); pan {
			violate("panic", "panic in the real code or its environment: "+val, i, nil)
			res.drift = "panic"
			return
		}
		if derr == nil && !st.Stable {
			res.steps++
			if mok, listed := st.O.Ok[b.Expect]; b.Expect != "" && !res.reproduced[b.Expect] && (i == len(b.Steps)-1 || (listed && !mok)) {
				// a counterexample may show its failure on an internal step: the real goroutine runs on to its next
				// gate; the property is evaluated on the real state as soon as it fails (or not at all)
				for dl := time.Now().Add(3 * time.Second); time.Now().Before(dl); time.Sleep(200 * time.Microsecond) {
					if !r.monitors(r.observe())[b.Expect] {
						res.reproduced[b.Expect] = true
						break
					}
				}
			}
			continue
		}
		var ok bool
		var o *Obs
		var why string
		if derr != nil {
			o, why = r.observe(), derr.Error()
		} else {
			ok, o, why = r.settle(st.O)
		}
		// the properties, on the real state
		mon := r.monitors(o)
		r.contact = ""
		if name == "LoopDiscover" && r.b.Mode != "api" {
			// a round was started (FindPeers called) although the set had reached its limit
			mon["roundBelow"] = !(o.finds > prevFinds && prevSize >= b.Limit)
			if st.O.Ok != nil {
				st.O.Ok["roundBelow"] = !(boolean(st.A, "open") && i > 0 && len(b.Steps[i-1].O.Set) >= b.Limit)
			}
		}
		bad := false
		for k, holds := range mon {
			if holds {
				continue
			}
			modelHolds := alwaysHold[k] || st.O.Ok == nil || st.O.Ok[k]
			if modelHolds {
				violate(k, fmt.Sprintf("property %q fails on the real code where the model satisfies it (%s)", k, why), i, o)
				bad = true
			} else if ok {
				res.reproduced[k] = true
			}
		}
		if !ok {
			if !bad {
				res.drift = fmt.Sprintf("behaviour %s step %d (%v): %s", b.ID, i, st.A, why)
			}
			return
		}
		res.steps++
	}
	res.followed = true
	return
}

func (e *env) findsNow() int {
	e.mu.Lock()
	defer e.mu.Unlock()
	return e.finds
}

func TestDriver(t *testing.T) {
	rep := vh.NewReport()
	defer func() {
		if err := rep.Write(); err != nil {
			t.Fatal(err)
		}
	}()
	var plan Plan
	if err := vh.ReadJSON(os.Getenv("VERIF_PLAN"), &plan); err != nil {
		t.Fatalf("plan: %v", err)
	}
	old := discovery.VerifSetRetryTimeout(2 * time.Millisecond)
	defer discovery.VerifSetRetryTimeout(old)

	gcDone := make(chan struct{})
	if plan.GCProbe {
		go func() { defer close(gcDone); gcProbe(rep) }()
	} else {
		close(gcDone) // the check runs TestGCProbe as a process of its own, next to TLC
	}

	drifts := 0
	repro := map[string]int{}
	witness := map[string]string{}
	acts := map[string]int64{}
	failed := 0
	for i := range plan.Behs {
		b := &plan.Behs[i]
		if failed >= 8 {
			// the code does not follow the model: every further behaviour costs watchdog time and adds nothing
			rep.Count("behaviours_skipped", 1)
			continue
		}
		res := replay(rep, b)
		if b.Fixed {
			res.drift = "" // (verdict recorded below) not following the tree before the fix is the expected outcome
		}
		if res.drift != "" || res.viol > 0 {
			failed++
		}
		rep.Count("behaviours_replayed", 1)
		rep.Count("steps_replayed", int64(res.steps))
		if res.followed {
			rep.Count("traces_validated_against_impl", 1)
			for _, st := range b.Steps {
				acts[str(st.A, "a")]++
			}
		}
		for k := range res.reproduced {
			repro[k]++
		}
		if b.Expect != "" {
			switch {
			case res.reproduced[b.Expect]:
				witness[b.ID] = "reproduced"
			case res.drift != "":
				witness[b.ID] = "not followed: " + res.drift
			default:
				witness[b.ID] = "followed, but the property holds on the real code"
			}
		}
		if res.drift != "" {
			drifts++
			if drifts <= 5 {
				rep.Inconclusivef("conformance drift: %s", res.drift)
			}
		}
		if i < 2 && res.followed {
			rep.Sample(map[string]any{"behaviour": b.ID, "mode": b.Mode, "steps": len(b.Steps), "last_action": b.Steps[len(b.Steps)-1].A})
		}
	}
	rep.Set("goroutines_at_end", runtime.NumGoroutine())
	rep.Set("drifts", drifts)
	rep.Set("reproduced", repro)
	rep.Set("witness", witness)
	rep.Set("actions", acts)
	<-gcDone
}

// TestGCProbe is the probe alone (a minute of wall time that the check hides behind its TLC runs).
func TestGCProbe(t *testing.T) {
	rep := vh.NewReport()
	gcProbe(rep)
	if err := rep.Write(); err != nil {
		t.Fatal(err)
	}
}

// gcProbe runs the real GC loop of a backoffConnector once (its period is the constant gcInterval = 1 minute):
// an elapsed record is deleted, a running one is kept, HasBackoff does not change.
func gcProbe(rep *vh.Report) {
	e := newEnv([]string{"a", "b"})
	cn := discovery.VerifNewConnector(newFakeHost(e), backoff.NewFixedBackoff(time.Hour))
	cn.Backoff(e.ids["a"])
	cn.Age(2 * time.Hour)
	cn.Backoff(e.ids["b"])
	if cn.HasBackoff(e.ids["a"]) || !cn.HasBackoff(e.ids["b"]) || cn.Size() != 2 {
		rep.Violate("X_discovery/backoff/ageing", fmt.Sprintf("after Backoff(a), 2h, Backoff(b): HasBackoff a=%v b=%v size=%d",
			cn.HasBackoff(e.ids["a"]), cn.HasBackoff(e.ids["b"]), cn.Size()), nil)
		return
	}
	ctx, cancel := context.WithCancel(context.Background())
	defer cancel()
	go cn.GC(ctx)
	dl := time.Now().Add(150 * time.Second)
	for time.Now().Before(dl) && cn.Size() == 2 {
		time.Sleep(200 * time.Millisecond)
	}
	_, aKept := cn.Records()[e.ids["a"]]
	switch {
	case cn.Size() == 2:
		rep.Violate("X_discovery/gc/elapsed-record-kept", "the GC loop ran for 150 s (period 60 s) and did not delete an elapsed record", nil)
	case aKept || !cn.HasBackoff(e.ids["b"]) || cn.Size() != 1:
		rep.Violate("X_discovery/gc/wrong-record", fmt.Sprintf("after the GC: elapsed record kept=%v, running record HasBackoff=%v, size=%d",
			aKept, cn.HasBackoff(e.ids["b"]), cn.Size()), nil)
	default:
		rep.Count("gc_probe_ok", 1)
	}
}
