// Driver for C11 (blob retrieval returns exactly the blobs that are in the block).
//
// Two-sided binding of spec/blob/BlobLayout.tla + BlobParser.tla (B3, case enumeration):
//
//	(i)  every block TLC enumerated (VERIF_CASES) is rebuilt with the REAL builder (go-square Builder /
//	     celestia-app da.ConstructEDS) from real blob transactions and the real layout -- width, start
//	     index of every blob, kind and namespace of every share -- is compared with BlobLayout's.
//	     A difference is conformance drift of the layout specification (inconclusive), never a violation.
//	(ii) only layouts the real production rules produced (threshold 64) are served, through a real
//	     accessor (share/eds.Rsmt2D + eds.NamespaceData) and, for a subset, through a real store.Store +
//	     store.Getter behind a cascade getter, to a real blob.Service; GetAll, Get, GetProof, Included and
//	     GetCommitmentProof are called for every namespace / commitment, present or absent.
//
// Oracle: the blobs the block was built from (data, signer, share version, namespace, commitment) and
// the positions the real builder recorded for them in the PFB share indexes.
package blob

import (
	"bytes"
	"context"
	"errors"
	"fmt"
	"math/rand"
	"os"
	"testing"
	"time"

	logging "github.com/ipfs/go-log/v2"

	"github.com/celestiaorg/celestia-app/v9/pkg/appconsts"
	libshare "github.com/celestiaorg/go-square/v4/share"

	nodeblob "github.com/celestiaorg/celestia-node/blob"
	"github.com/celestiaorg/celestia-node/header"
	"github.com/celestiaorg/celestia-node/share/shwap"
	"github.com/celestiaorg/celestia-node/share/shwap/getters"
	"github.com/celestiaorg/celestia-node/store"

	"verifharness/blobsq"
	"verifharness/vh"
)

type oracleBlob struct {
	nb    *nodeblob.Blob // what the client would have submitted (commitment computed by NewBlob)
	mns   int
	start int // ODS index recorded by the builder
}

type env struct {
	rep   *vh.Report
	ctx   context.Context
	via   string
	block *blobsq.Block
	svc   *nodeblob.Service
	ob    []oracleBlob
}

func (e *env) replay(extra map[string]any) map[string]any {
	m := map[string]any{"case": e.block.Case, "via": e.via, "seed": vh.Seed()}
	for k, v := range extra {
		m[k] = v
	}
	return m
}

func sameBlob(got *nodeblob.Blob, want oracleBlob, b *blobsq.Block) string {
	if got == nil {
		return "nil blob"
	}
	if !got.Namespace().Equals(want.nb.Namespace()) {
		return "namespace differs"
	}
	if !bytes.Equal(got.Data(), want.nb.Data()) {
		return fmt.Sprintf("data differs (len %d vs %d)", len(got.Data()), len(want.nb.Data()))
	}
	if got.ShareVersion() != want.nb.ShareVersion() {
		return "share version differs"
	}
	if !bytes.Equal(got.Signer(), want.nb.Signer()) {
		return "signer differs"
	}
	if !bytes.Equal(got.Commitment, want.nb.Commitment) {
		return "commitment differs"
	}
	if got.Index() != b.EdsIndex(want.start) {
		return fmt.Sprintf("index %d, expected %d (ODS %d, w=%d)", got.Index(), b.EdsIndex(want.start), want.start, b.W)
	}
	return ""
}

// rowsOf returns the ODS rows blob i spans.
func rowsOf(b *blobsq.Block, o oracleBlob, nshares int) (int, int) {
	return o.start / b.W, (o.start + nshares - 1) / b.W
}

func (e *env) checkGetAll(q int) {
	ns := blobsq.Namespace(q)
	var want []oracleBlob
	for _, o := range e.ob {
		if o.mns == q {
			want = append(want, o)
		}
	}
	var got []*nodeblob.Blob
	var err error
	if p, v := vh.Recover(func() { got, err = e.svc.GetAll(e.ctx, e.block.Height, []libshare.Namespace{ns}) }); p {
		e.rep.Violate("C11/getall/panic", "GetAll panicked: "+v, e.replay(map[string]any{"ns": q}))
		return
	}
	e.rep.Count("getall_calls", 1)
	if err != nil {
		e.rep.Violate("C11/getall/error", fmt.Sprintf("GetAll(ns=%d) failed on a real layout: %v", q, err), e.replay(map[string]any{"ns": q}))
		return
	}
	if len(got) != len(want) {
		e.rep.Violate("C11/getall/count", fmt.Sprintf("GetAll(ns=%d) returned %d blobs, the block has %d", q, len(got), len(want)),
			e.replay(map[string]any{"ns": q}))
		return
	}
	for i := range want {
		if d := sameBlob(got[i], want[i], e.block); d != "" {
			e.rep.Violate("C11/getall/blob", fmt.Sprintf("GetAll(ns=%d) blob %d: %s", q, i, d), e.replay(map[string]any{"ns": q, "i": i}))
			return
		}
	}
	if len(want) == 0 {
		e.rep.Count("getall_absent_ns", 1)
	} else {
		e.rep.Count("getall_blobs_checked", int64(len(want)))
	}
}

func (e *env) checkGetAllMulti(qs []int) {
	var nss []libshare.Namespace
	var want []oracleBlob
	for _, q := range qs {
		nss = append(nss, blobsq.Namespace(q))
		for _, o := range e.ob {
			if o.mns == q {
				want = append(want, o)
			}
		}
	}
	got, err := e.svc.GetAll(e.ctx, e.block.Height, nss)
	e.rep.Count("getall_multi_calls", 1)
	if err != nil {
		e.rep.Violate("C11/getall-multi/error", fmt.Sprintf("GetAll(%v): %v", qs, err), e.replay(map[string]any{"nss": qs}))
		return
	}
	if len(got) != len(want) {
		e.rep.Violate("C11/getall-multi/count", fmt.Sprintf("GetAll(%v) returned %d blobs, expected %d", qs, len(got), len(want)), e.replay(map[string]any{"nss": qs}))
		return
	}
	for i := range want {
		if d := sameBlob(got[i], want[i], e.block); d != "" {
			e.rep.Violate("C11/getall-multi/blob", fmt.Sprintf("GetAll(%v) blob %d: %s", qs, i, d), e.replay(map[string]any{"nss": qs}))
			return
		}
	}
}

// checkByCommitment: Get, GetProof, Included, GetCommitmentProof for (q, commitment).
func (e *env) checkByCommitment(q int, com nodeblob.Commitment, what string) {
	ns := blobsq.Namespace(q)
	first := -1
	for i, o := range e.ob {
		if o.mns == q && bytes.Equal(o.nb.Commitment, com) {
			first = i
			break
		}
	}
	rp := e.replay(map[string]any{"ns": q, "commitment": com.String(), "target": what})
	// Get
	var got *nodeblob.Blob
	var err error
	if p, v := vh.Recover(func() { got, err = e.svc.Get(e.ctx, e.block.Height, ns, com) }); p {
		e.rep.Violate("C11/get/panic", "Get panicked: "+v, rp)
		return
	}
	e.rep.Count("get_calls", 1)
	if first >= 0 {
		e.rep.Count("get_present", 1)
		if err != nil {
			e.rep.Violate("C11/get/missed", fmt.Sprintf("Get(ns=%d,%s) failed although the block has the blob: %v", q, what, err), rp)
			return
		}
		if d := sameBlob(got, e.ob[first], e.block); d != "" {
			e.rep.Violate("C11/get/blob", fmt.Sprintf("Get(ns=%d,%s): %s", q, what, d), rp)
			return
		}
	} else {
		e.rep.Count("get_absent", 1)
		if err == nil {
			e.rep.Violate("C11/get/phantom", fmt.Sprintf("Get(ns=%d,%s) returned a blob that is not in the block under that namespace", q, what), rp)
			return
		}
		if !errors.Is(err, nodeblob.ErrBlobNotFound) {
			e.rep.Violate("C11/get/wrong-error", fmt.Sprintf("Get(ns=%d,%s) absent blob: error is not ErrBlobNotFound: %v", q, what, err), rp)
			return
		}
	}
	// GetProof
	var proof *nodeblob.Proof
	if p, v := vh.Recover(func() { proof, err = e.svc.GetProof(e.ctx, e.block.Height, ns, com) }); p {
		e.rep.Violate("C11/getproof/panic", "GetProof panicked: "+v, rp)
		return
	}
	e.rep.Count("getproof_calls", 1)
	if first >= 0 {
		if err != nil || proof == nil {
			e.rep.Violate("C11/getproof/missed", fmt.Sprintf("GetProof(ns=%d,%s) failed: %v", q, what, err), rp)
			return
		}
		n, _ := e.ob[first].nb.Length()
		r0, r1 := rowsOf(e.block, e.ob[first], n)
		if proof.Len() != r1-r0+1 {
			e.rep.Violate("C11/getproof/rows", fmt.Sprintf("GetProof(ns=%d,%s): %d row proofs, the blob spans rows %d..%d", q, what, proof.Len(), r0, r1), rp)
			return
		}
		// every row proof proves the namespace's shares of its row to the row root
		for k, np := range *proof {
			row := r0 + k
			var nsShares []libshare.Share
			for c := 0; c < e.block.W; c++ {
				sh := e.block.ODS[row*e.block.W+c]
				if sh.Namespace().Equals(ns) {
					nsShares = append(nsShares, sh)
				}
			}
			rnd := shwap.RowNamespaceData{Shares: nsShares, Proof: np}
			if verr := rnd.Verify(e.block.Roots, ns, row); verr != nil {
				e.rep.Violate("C11/getproof/invalid", fmt.Sprintf("GetProof(ns=%d,%s): proof %d does not prove row %d: %v", q, what, k, row, verr), rp)
				return
			}
		}
		e.rep.Count("getproof_rows_verified", int64(proof.Len()))
	} else if err == nil || !errors.Is(err, nodeblob.ErrBlobNotFound) {
		e.rep.Violate("C11/getproof/absent", fmt.Sprintf("GetProof(ns=%d,%s) absent blob: err=%v", q, what, err), rp)
		return
	}
	// Included, with the node's own proof (consistency with Get); tampered proofs are C12's.
	if first >= 0 {
		var inc bool
		if p, v := vh.Recover(func() { inc, err = e.svc.Included(e.ctx, e.block.Height, ns, proof, com) }); p {
			e.rep.Violate("C11/included/panic", "Included panicked: "+v, rp)
			return
		}
		e.rep.Count("included_calls", 1)
		if !inc || err != nil {
			e.rep.Violate("C11/included/own-proof", fmt.Sprintf("Included(ns=%d,%s, own proof) = (%v, %v)", q, what, inc, err), rp)
			return
		}
	} else {
		// any non-nil proof: the answer must be (false, nil)
		dummy := nodeblob.Proof{}
		var inc bool
		if p, v := vh.Recover(func() { inc, err = e.svc.Included(e.ctx, e.block.Height, ns, &dummy, com) }); p {
			e.rep.Violate("C11/included/panic", "Included panicked: "+v, rp)
			return
		}
		e.rep.Count("included_calls", 1)
		if inc || err != nil {
			e.rep.Violate("C11/included/absent", fmt.Sprintf("Included(ns=%d,%s) for an absent blob = (%v, %v)", q, what, inc, err), rp)
			return
		}
	}
	// GetCommitmentProof
	var cp *nodeblob.CommitmentProof
	if p, v := vh.Recover(func() { cp, err = e.svc.GetCommitmentProof(e.ctx, e.block.Height, ns, com) }); p {
		e.rep.Violate("C11/commitmentproof/panic", "GetCommitmentProof panicked: "+v, rp)
		return
	}
	e.rep.Count("commitmentproof_calls", 1)
	if first >= 0 {
		if err != nil {
			e.rep.Violate("C11/commitmentproof/missed", fmt.Sprintf("GetCommitmentProof(ns=%d,%s): %v", q, what, err), rp)
			return
		}
		if verr := cp.Verify(e.block.Roots.Hash(), com); verr != nil {
			e.rep.Violate("C11/commitmentproof/invalid", fmt.Sprintf("GetCommitmentProof(ns=%d,%s) does not verify: %v", q, what, verr), rp)
			return
		}
	} else if err == nil || !errors.Is(err, nodeblob.ErrBlobNotFound) {
		e.rep.Violate("C11/commitmentproof/absent", fmt.Sprintf("GetCommitmentProof(ns=%d,%s) absent blob: err=%v", q, what, err), rp)
	}
}

func (e *env) runAll(rng *rand.Rand) {
	present := map[int]bool{}
	for _, o := range e.ob {
		present[o.mns] = true
	}
	for q := 2; q <= 8; q++ {
		e.checkGetAll(q)
	}
	if len(present) > 0 {
		qs := []int{2, 3, 4, 6}
		rng.Shuffle(len(qs), func(i, j int) { qs[i], qs[j] = qs[j], qs[i] })
		e.checkGetAllMulti(qs[:2+rng.Intn(2)])
	}
	// commitments: every distinct blob of the block + one that is nowhere in the block
	seen := map[string]bool{}
	for i, o := range e.ob {
		k := string(o.nb.Commitment)
		if seen[k] {
			continue
		}
		seen[k] = true
		what := fmt.Sprintf("blob#%d", i)
		e.checkByCommitment(o.mns, o.nb.Commitment, what) // its own namespace
		for q := 2; q <= 7; q++ {                          // other namespaces, present or absent
			if q != o.mns && (present[q] || q == 3 || q == 7) {
				e.checkByCommitment(q, o.nb.Commitment, what+"@other-ns")
			}
		}
	}
	for _, q := range []int{2, 4, 5} {
		absent, err := blobsq.MakeBlob(blobsq.MBlob{Ns: q, Len: 1 + rng.Intn(3), Ver: rng.Intn(2), C: 3}, vh.Seed()+77)
		if err != nil {
			continue
		}
		nb, err := nodeblob.ToNodeBlobs(absent)
		if err != nil {
			continue
		}
		e.checkByCommitment(q, nb[0].Commitment, "absent-blob")
	}
}

func oracle(b *blobsq.Block) ([]oracleBlob, error) {
	ob := make([]oracleBlob, len(b.Blobs))
	for i, lb := range b.Blobs {
		nb, err := nodeblob.NewBlob(lb.ShareVersion(), lb.Namespace(), lb.Data(), lb.Signer())
		if err != nil {
			return nil, err
		}
		ob[i] = oracleBlob{nb: nb, mns: b.Case.Blobs[i].Ns, start: b.RealStarts[i]}
	}
	return ob, nil
}

// randomCase: a larger multiset (production threshold), no model layout to compare with.
func randomCase(rng *rand.Rand) blobsq.Case {
	n := 1 + rng.Intn(8)
	nsPool := []int{2, 4, 6, 8}
	nsPool = nsPool[:1+rng.Intn(len(nsPool))]
	lens := []int{1, 1, 2, 3, 7, 16, 17, 33, 63, 64, 65, 66, 100, 127, 128, 129, 130, 200, 257, 300}
	var bl []blobsq.MBlob
	for i := 0; i < n; i++ {
		l := lens[rng.Intn(len(lens))]
		if rng.Intn(25) == 0 {
			l = 513 + rng.Intn(1200) // many rows of a 64-wide square
		}
		mb := blobsq.MBlob{Ns: nsPool[rng.Intn(len(nsPool))], Len: l, Ver: rng.Intn(2), C: 1 + rng.Intn(2)}
		if len(bl) > 0 && rng.Intn(5) == 0 {
			mb = bl[rng.Intn(len(bl))] // duplicate
		}
		bl = append(bl, mb)
	}
	// namespace order, stable
	for i := 1; i < len(bl); i++ {
		for j := i; j > 0 && bl[j-1].Ns > bl[j].Ns; j-- {
			bl[j-1], bl[j] = bl[j], bl[j-1]
		}
	}
	return blobsq.Case{Blobs: bl, Compact: 1 + rng.Intn(4), T: appconsts.SubtreeRootThreshold}
}

func TestDriver(t *testing.T) {
	_ = logging.SetLogLevel("*", "FATAL")
	rep := vh.NewReport()
	defer func() {
		if err := rep.Write(); err != nil {
			t.Fatal(err)
		}
	}()
	rng := vh.Rand()
	ctx, cancel := context.WithTimeout(context.Background(), 40*time.Minute)
	defer cancel()

	var cases []blobsq.Case
	if p := os.Getenv("VERIF_CASES"); p != "" {
		if err := vh.ReadJSON(p, &cases); err != nil {
			t.Fatalf("cases: %v", err)
		}
	}
	maxServe := vh.EnvInt("VERIF_MAX_SERVE", 1<<30)  // production layouts served to the blob service
	nRandom := vh.EnvInt("VERIF_RANDOM", 30)
	storeEvery := vh.EnvInt("VERIF_STORE_EVERY", 10)
	// seeded order so that a bounded quick run sees a different subset per seed
	rng.Shuffle(len(cases), func(i, j int) { cases[i], cases[j] = cases[j], cases[i] })

	// a real store behind a cascade getter for a subset of the blocks
	st, err := store.NewStore(store.DefaultParameters(), t.TempDir())
	if err != nil {
		t.Fatalf("store: %v", err)
	}
	defer st.Stop(ctx) //nolint:errcheck

	height := uint64(0)
	served := 0
	start := time.Now()
	serve := func(c blobsq.Case, modelLayout bool) {
		force := !modelLayout || len(c.Segs) == 0 // random blocks and the directed wide family are always served
		height++
		b, err := blobsq.Build(c, height, vh.Seed(), rng)
		if err != nil {
			rep.Inconclusivef("cannot build case %+v: %v", c, err)
			return
		}
		rep.Count("blocks_built", 1)
		if modelLayout {
			// (i) BlobLayout.tla against the real builder
			if d := b.CompareLayout(); len(d) > 0 {
				rep.Inconclusivef("layout drift: BlobLayout.tla and the real builder disagree on %+v (T=%d): %v", c.Blobs, c.T, d)
				rep.Count("layout_mismatch", 1)
				return
			}
			rep.Count("layouts_equal_to_model", 1)
			rep.Count(fmt.Sprintf("layouts_T%d", c.T), 1)
		}
		if c.T != appconsts.SubtreeRootThreshold || (served >= maxServe && !force) {
			return // (ii) only production layouts are fed to the parser
		}
		served++
		ob, err := oracle(b)
		if err != nil {
			rep.Inconclusivef("oracle: %v", err)
			return
		}
		mem := blobsq.NewMemGetter()
		mem.Add(b)
		e := &env{rep: rep, ctx: ctx, via: "accessor", block: b, ob: ob,
			svc: nodeblob.NewService(nil, mem, mem.HeaderByHeight, nil)}
		e.runAll(rng)
		rep.Count("blocks_served", 1)
		rep.Count(fmt.Sprintf("served_w%d", b.W), 1)
		if b.W >= 128 && b.InRowPaddingThenTwoStarts() {
			rep.Count("served_inrow_padding_then_two_starts", 1)
		}
		if len(ob) > 0 && served <= 3 {
			rep.Sample(map[string]any{"case": c, "w": b.W, "real_starts": b.RealStarts})
		}
		if storeEvery > 0 && served%storeEvery == 0 {
			if err := st.PutODSQ4(ctx, b.Roots, b.Height, b.EDS); err != nil {
				rep.Inconclusivef("store put: %v", err)
				return
			}
			casc := getters.NewCascadeGetter([]shwap.Getter{store.NewGetter(st)})
			hg := func(_ context.Context, h uint64) (*header.ExtendedHeader, error) {
				if h != b.Height {
					return nil, fmt.Errorf("no header %d", h)
				}
				return b.Header, nil
			}
			e2 := &env{rep: rep, ctx: ctx, via: "store+cascade", block: b, ob: ob, svc: nodeblob.NewService(nil, casc, hg, nil)}
			e2.runAll(rng)
			rep.Count("blocks_served_via_store", 1)
			_ = st.RemoveODSQ4(ctx, b.Height, b.Roots.Hash())
		}
	}
	// replay of one recorded violation (bin/check C11 --replay <file>): the block of the violation, all queries
	if p := os.Getenv("VERIF_REPLAY_CASE"); p != "" {
		var rp struct {
			Case blobsq.Case `json:"case"`
		}
		if err := vh.ReadJSON(p, &rp); err != nil {
			t.Fatalf("replay: %v", err)
		}
		storeEvery = 1
		serve(rp.Case, rp.Case.W > 0)
		rep.Set("replayed", rp.Case)
		return
	}
	for _, c := range cases {
		serve(c, true)
	}
	// the directed family of wide production blocks (MCBlobLayoutWide): padding skipped in the middle of
	// a row and a further blob start behind it in the same row; a seeded subset in the quick tier
	var wide []blobsq.Case
	if p := os.Getenv("VERIF_WIDE_CASES"); p != "" {
		if err := vh.ReadJSON(p, &wide); err != nil {
			t.Fatalf("wide cases: %v", err)
		}
	}
	rng.Shuffle(len(wide), func(i, j int) { wide[i], wide[j] = wide[j], wide[i] })
	if m := vh.EnvInt("VERIF_MAX_WIDE", 4); len(wide) > m {
		wide = wide[:m]
	}
	for _, c := range wide {
		serve(c, true)
		rep.Count("wide_blocks", 1)
	}
	for i := 0; i < nRandom; i++ {
		serve(randomCase(rng), false)
		rep.Count("random_blocks", 1)
	}
	rep.Set("cases", len(cases))
	rep.Set("served", served)
	rep.Set("wall_s", time.Since(start).Seconds())
}
