package shwapverify

// Directed family for C02 (added after seeded/C02-5): namespaces that span MANY rows of a wide square.
// ShwapVerify.tla's NamespaceData verifier is uniform in the row-entry index (the same accept operator is
// applied to entry i against row rowIdxs[i] for every i), and TLC enumerates it for widths <= 4, i.e. for at
// most 4 entries. An implementation that treats entries differently by position (a bounded worker pool, a
// batch size, an early exit) is not uniform; this family puts every single-entry forgery of the model
// (truncate at either end, swap with the neighbour, replay the previous entry) at EVERY entry index of
// namespaces spanning 12 rows (ODS 16) and 21 rows (ODS 32) and demands what the model demands there:
// accepted => the exposed shares equal the namespace's shares in the committed square.
// An honest response that is rejected is inconclusive (C02 is a soundness statement), not a violation.

import (
	"context"
	"fmt"
	"testing"

	libshare "github.com/celestiaorg/go-square/v4/share"

	"github.com/celestiaorg/celestia-node/share/eds"
	"github.com/celestiaorg/celestia-node/share/eds/edstest"
	"github.com/celestiaorg/celestia-node/share/shwap"

	"verifharness/vh"
)

func wideNamespacePass(t *testing.T, rep *vh.Report, prop string) {
	if prop != "C02" {
		return
	}
	ctx := context.Background()
	var cases, rejected, entries int64
	for _, cfg := range [][2]int{{16, 16*12 - 5}, {32, 32*21 - 9}} {
		ods, amount := cfg[0], cfg[1]
		ns := libshare.RandomBlobNamespace()
		sq, roots := edstest.RandEDSWithNamespace(t, ns, amount, ods)
		honest, err := eds.NamespaceData(ctx, &eds.Rsmt2D{ExtendedDataSquare: sq}, ns)
		if err != nil {
			rep.Inconclusivef("wide namespace family: producing the honest namespace data of an ODS-%d square: %v", ods, err)
			return
		}
		if err := honest.Verify(roots, ns); err != nil {
			rep.Inconclusivef("wide namespace family: honest namespace data over %d rows of an ODS-%d square is rejected: %v", len(honest), ods, err)
			return
		}
		want := honest.Flatten()
		if len(want) != amount {
			rep.Inconclusivef("wide namespace family: honest data has %d shares, the square has %d of the namespace", len(want), amount)
			return
		}
		n := len(honest)
		entries += int64(n)
		for i := 0; i < n; i++ {
			for _, tam := range []string{"truncate-last", "drop-first", "swap-next", "replay-previous"} {
				forged := make(shwap.NamespaceData, n)
				copy(forged, honest)
				switch tam {
				case "truncate-last":
					if len(forged[i].Shares) < 2 {
						continue
					}
					forged[i].Shares = forged[i].Shares[:len(forged[i].Shares)-1]
				case "drop-first":
					if len(forged[i].Shares) < 2 {
						continue
					}
					forged[i].Shares = forged[i].Shares[1:]
				case "swap-next":
					if i+1 >= n {
						continue
					}
					forged[i], forged[i+1] = forged[i+1], forged[i]
				case "replay-previous":
					if i == 0 {
						continue
					}
					forged[i] = forged[i-1]
				}
				cases++
				var verr error
				if p, val := vh.Recover(func() { verr = forged.Verify(roots, ns) }); p {
					verr = fmt.Errorf("panic: %s", val)
				}
				if verr != nil {
					rejected++
					continue
				}
				if sameShares(forged.Flatten(), want) {
					continue // accepted and equal after all
				}
				pos := "first-8"
				if i >= 8 {
					pos = "beyond-8"
				}
				rep.Violate("C02/nd/wide-namespace/accepted-"+tam+"/"+pos,
					fmt.Sprintf("NamespaceData.Verify accepted a response whose entry %d of %d (ODS %d, namespace over %d rows) was forged (%s): exposed shares differ from the namespace's shares in the square",
						i, n, ods, n, tam),
					map[string]any{"family": "wide-namespace", "ods": ods, "namespaced_shares": amount, "entry": i, "entries": n, "tamper": tam})
			}
		}
	}
	rep.Count("wide_namespace_forgeries", cases)
	rep.Count("wide_namespace_forgeries_rejected", rejected)
	rep.Count("wide_namespace_row_entries", entries)
	if cases == 0 {
		rep.Inconclusivef("wide namespace family: no forgery was built")
	}
}
