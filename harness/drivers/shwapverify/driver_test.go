// Package shwapverify binds spec/shwap/ShwapVerify.tla to the real shwap verifiers (properties C01, C02).
//
// Every state TLC reaches in ShwapVerify.tla is a case (square layout, request, response recipe, model
// verdict). For each case the driver
//  1. builds the real square(s) with harness/square (real namespaces, padding shares, Reed-Solomon
//     extension, NMT roots) -- payload bytes depend on VERIF_SEED;
//  2. materialises the recipe: real shares for the cell references, real NMT proofs from the real
//     prover for the proof references, with the start/end/flag/leaf-hash rewrites of the recipe;
//  3. encodes it the way a peer would put it on the wire (protobuf messages written with the same
//     length-delimited framing; ranges both as shrex stream and as bitswap protobuf container);
//  4. decodes it with the REAL ReadFrom / FromProto and runs the REAL verifier against the real roots
//     and the requested position;
//  5. oracle of the property: accepted => the shares exposed by the accepted container are byte for
//     byte the committed shares at the requested position (computed from the square, independently
//     of the specification); honest response => accepted and identical to what the real producers
//     (eds.Rsmt2D, proofs cache, eds.NamespaceData) return;
//  6. conformance: the real verdict must equal the model's ImplAccept verdict; a difference without a
//     property violation is reported as inconclusive (the transcription is stale), never as violation.
//
// A sampled complement mutates the honest encodings at byte / field level with a seeded generator.
package shwapverify

import (
	"bufio"
	"bytes"
	"context"
	"crypto/sha256"
	"encoding/json"
	"fmt"
	"io"
	"math/rand"
	"os"
	"runtime"
	"sort"
	"strings"
	"sync"
	"sync/atomic"
	"testing"

	"github.com/celestiaorg/go-libp2p-messenger/serde"
	libshare "github.com/celestiaorg/go-square/v4/share"
	"github.com/celestiaorg/nmt"
	nmt_pb "github.com/celestiaorg/nmt/pb"
	"github.com/celestiaorg/rsmt2d"

	"github.com/celestiaorg/celestia-node/share"
	"github.com/celestiaorg/celestia-node/share/eds"
	"github.com/celestiaorg/celestia-node/share/shwap"
	shwappb "github.com/celestiaorg/celestia-node/share/shwap/pb"

	"verifharness/square"
	"verifharness/vh"
)

// ----------------------------------------------------------------------------- case format

type cellRef [3]int // square (1|2), EDS row, EDS col

type pfRef struct {
	K  string `json:"k"` // "pf" | "nil" | "empty"
	Q  int    `json:"q"`
	Ax int    `json:"ax"`
	I  int    `json:"i"`
	S  int    `json:"s"`
	E  int    `json:"e"`
	Cs int    `json:"cs"`
	Ce int    `json:"ce"`
	Im bool   `json:"im"`
	Lh int    `json:"lh"`
	Nm int    `json:"nm"` // 0 nodes as proven, 1 last node dropped, 2 first node appended again
}

type rndRecipe struct {
	Cells []cellRef `json:"cells"`
	Pf    pfRef     `json:"pf"`
}

type recipe struct {
	// sample
	Sh cellRef `json:"sh"`
	Pf pfRef   `json:"pf"`
	Ax int     `json:"ax"`
	// row
	Side  int       `json:"side"`
	Cells []cellRef `json:"cells"`
	// nd: rows of rnd recipes; range: rows of cells
	Rows json.RawMessage `json:"rows"`
	Fp   pfRef           `json:"fp"`
	Lp   pfRef           `json:"lp"`
}

type request struct {
	K    string `json:"k"`
	R    int    `json:"r"`
	C    int    `json:"c"`
	I    int    `json:"i"`
	Ns   int    `json:"ns"`
	From int    `json:"from"`
	To   int    `json:"to"`
	Nsc  bool   `json:"nsc"`
}

type tcase struct {
	W     int             `json:"w"`
	Ns    []int           `json:"ns"`
	Pid   []int           `json:"pid"`
	Req   request         `json:"req"`
	Resp  recipe          `json:"resp"`
	Acc   bool            `json:"acc"`
	Hon   bool            `json:"hon"`
	N     int             `json:"n"`
	Ok    bool            `json:"ok"`
	Steps json.RawMessage `json:"steps"`
}

// ----------------------------------------------------------------------------- worlds (squares + proof caches)

type proofKey struct{ q, ax, i, s, e int }

type world struct {
	sq     [3]*square.Square
	mu     sync.Mutex
	proofs map[proofKey][][]byte
	leaves map[[3]int][][]byte // (q, ax, i) -> leaf hashes
}

var (
	worlds   sync.Map // layout key -> *world
	worldsMu sync.Mutex
	salt     int64
)

// secondLayout mirrors SecondSquare of spec/common/Square.tla: row 0 and all padding shares are
// shared with the first square, every other data share is fresh (pid + 100).
func secondLayout(l square.Layout) square.Layout {
	out := square.Layout{W: l.W, Cells: make([]square.Cell, len(l.Cells))}
	for i, c := range l.Cells {
		if i >= l.W && c.PID != 0 {
			c.PID += 100
		}
		out.Cells[i] = c
	}
	return out
}

func getWorld(tc *tcase) (*world, error) {
	l, err := square.LayoutFrom(tc.W, tc.Ns, tc.Pid)
	if err != nil {
		return nil, err
	}
	key := l.Key()
	if w, ok := worlds.Load(key); ok {
		return w.(*world), nil
	}
	worldsMu.Lock()
	defer worldsMu.Unlock()
	if w, ok := worlds.Load(key); ok {
		return w.(*world), nil
	}
	s1, err := square.Build(l, salt)
	if err != nil {
		return nil, err
	}
	s2, err := square.Build(secondLayout(l), salt)
	if err != nil {
		return nil, err
	}
	w := &world{proofs: map[proofKey][][]byte{}, leaves: map[[3]int][][]byte{}}
	w.sq[1], w.sq[2] = s1, s2
	worlds.Store(key, w)
	return w, nil
}

func (w *world) share(ref cellRef) (libshare.Share, error) {
	if ref[0] < 1 || ref[0] > 2 {
		return libshare.Share{}, fmt.Errorf("bad square id %d", ref[0])
	}
	n := 2 * w.sq[1].W()
	if ref[1] < 0 || ref[1] >= n || ref[2] < 0 || ref[2] >= n {
		return libshare.Share{}, fmt.Errorf("cell %v outside the square", ref)
	}
	return w.sq[ref[0]].Share(ref[1], ref[2]), nil
}

func (w *world) shares(refs []cellRef) ([]libshare.Share, error) {
	out := make([]libshare.Share, len(refs))
	for i, r := range refs {
		s, err := w.share(r)
		if err != nil {
			return nil, err
		}
		out[i] = s
	}
	return out, nil
}

func axisOf(ax int) rsmt2d.Axis {
	if ax == 0 {
		return rsmt2d.Row
	}
	return rsmt2d.Col
}

// nodes returns the nodes of the real prover's range proof for [s,e) of the given axis tree.
func (w *world) nodes(k proofKey) ([][]byte, error) {
	w.mu.Lock()
	defer w.mu.Unlock()
	if n, ok := w.proofs[k]; ok {
		return n, nil
	}
	tree, err := w.sq[k.q].AxisTree(axisOf(k.ax), k.i)
	if err != nil {
		return nil, err
	}
	p, err := tree.ProveRange(k.s, k.e)
	if err != nil {
		return nil, err
	}
	w.proofs[k] = p.Nodes()
	return p.Nodes(), nil
}

// leafHash returns the NMT leaf hash of leaf p of the given axis tree (namespace prefix as the
// erasured tree assigns it).
func (w *world) leafHash(q, ax, i, p int) ([]byte, error) {
	w.mu.Lock()
	defer w.mu.Unlock()
	key := [3]int{q, ax, i}
	lhs, ok := w.leaves[key]
	if !ok {
		sq := w.sq[q]
		var cells []libshare.Share
		if ax == 0 {
			cells = sq.Row(i)
		} else {
			cells = sq.Col(i)
		}
		hasher := nmt.NewNmtHasher(sha256.New(), libshare.NamespaceSize, true)
		for pos, c := range cells {
			prefix := libshare.ParitySharesNamespace.Bytes()
			if i < sq.W() && pos < sq.W() {
				prefix = c.Namespace().Bytes()
			}
			h, err := hasher.HashLeaf(append(append([]byte{}, prefix...), c.ToBytes()...))
			if err != nil {
				return nil, err
			}
			lhs = append(lhs, append([]byte{}, h...))
		}
		w.leaves[key] = lhs
	}
	if p < 0 || p >= len(lhs) {
		return nil, fmt.Errorf("leaf %d outside tree", p)
	}
	return lhs[p], nil
}

// pbProof materialises a proof reference as the protobuf message a peer would send.
func (w *world) pbProof(pr pfRef) (*nmt_pb.Proof, error) {
	switch pr.K {
	case "nil":
		return nil, nil
	case "empty":
		return &nmt_pb.Proof{IsMaxNamespaceIgnored: pr.Im}, nil
	case "pf":
		nodes, err := w.nodes(proofKey{pr.Q, pr.Ax, pr.I, pr.S, pr.E})
		if err != nil {
			return nil, err
		}
		if len(nodes) > 0 && pr.Nm == 1 {
			nodes = nodes[:len(nodes)-1]
		} else if len(nodes) > 0 && pr.Nm == 2 {
			nodes = append(append([][]byte{}, nodes...), nodes[0])
		}
		out := &nmt_pb.Proof{Start: int64(pr.Cs), End: int64(pr.Ce), Nodes: nodes, IsMaxNamespaceIgnored: pr.Im}
		if pr.Lh > 0 {
			lh, err := w.leafHash(pr.Q, pr.Ax, pr.I, pr.Lh-1)
			if err != nil {
				return nil, err
			}
			out.LeafHash = lh
		}
		return out, nil
	}
	return nil, fmt.Errorf("unknown proof kind %q", pr.K)
}

// ----------------------------------------------------------------------------- wire encodings (the adversary's encoder)

func frame(msg serde.Message) []byte {
	var buf bytes.Buffer
	if _, err := serde.Write(&buf, msg); err != nil {
		panic(err)
	}
	return buf.Bytes()
}

func pbShares(shs []libshare.Share) []*shwappb.Share {
	out := make([]*shwappb.Share, len(shs))
	for i, s := range shs {
		out[i] = &shwappb.Share{Data: s.ToBytes()}
	}
	return out
}

func (w *world) pbSample(r recipe) (*shwappb.Sample, error) {
	sh, err := w.share(r.Sh)
	if err != nil {
		return nil, err
	}
	pf, err := w.pbProof(r.Pf)
	if err != nil {
		return nil, err
	}
	return &shwappb.Sample{Share: &shwappb.Share{Data: sh.ToBytes()}, Proof: pf, ProofType: shwappb.AxisType(r.Ax)}, nil
}

func (w *world) pbRow(r recipe) (*shwappb.Row, error) {
	shs, err := w.shares(r.Cells)
	if err != nil {
		return nil, err
	}
	side := shwappb.Row_LEFT
	if r.Side != 0 {
		side = shwappb.Row_RIGHT
	}
	return &shwappb.Row{SharesHalf: pbShares(shs), HalfSide: side}, nil
}

func (w *world) pbRnd(r rndRecipe) (*shwappb.RowNamespaceData, error) {
	shs, err := w.shares(r.Cells)
	if err != nil {
		return nil, err
	}
	pf, err := w.pbProof(r.Pf)
	if err != nil {
		return nil, err
	}
	return &shwappb.RowNamespaceData{Shares: pbShares(shs), Proof: pf}, nil
}

func ndRows(r recipe) ([]rndRecipe, error) {
	var rows []rndRecipe
	if len(r.Rows) == 0 {
		return nil, nil
	}
	err := json.Unmarshal(r.Rows, &rows)
	return rows, err
}

func rangeRows(r recipe) ([][]cellRef, error) {
	var rows [][]cellRef
	if len(r.Rows) == 0 {
		return nil, nil
	}
	err := json.Unmarshal(r.Rows, &rows)
	return rows, err
}

// encoded response(s) of a case: name of the codec -> bytes
type encoding struct {
	codec string
	data  []byte
}

func (w *world) encode(kind string, r recipe) ([]encoding, error) {
	switch kind {
	case "sample":
		m, err := w.pbSample(r)
		if err != nil {
			return nil, err
		}
		return []encoding{{"stream", frame(m)}}, nil
	case "row":
		m, err := w.pbRow(r)
		if err != nil {
			return nil, err
		}
		return []encoding{{"stream", frame(m)}}, nil
	case "rnd":
		m, err := w.pbRnd(rndRecipe{Cells: r.Cells, Pf: r.Pf})
		if err != nil {
			return nil, err
		}
		return []encoding{{"stream", frame(m)}}, nil
	case "nd":
		rows, err := ndRows(r)
		if err != nil {
			return nil, err
		}
		var buf []byte
		for _, row := range rows {
			m, err := w.pbRnd(row)
			if err != nil {
				return nil, err
			}
			buf = append(buf, frame(m)...)
		}
		return []encoding{{"stream", buf}}, nil
	case "range":
		rows, err := rangeRows(r)
		if err != nil {
			return nil, err
		}
		fp, err := w.pbProof(r.Fp)
		if err != nil {
			return nil, err
		}
		lp, err := w.pbProof(r.Lp)
		if err != nil {
			return nil, err
		}
		cont := &shwappb.RangeNamespaceData{FirstIncompleteRowProof: fp, LastIncompleteRowProof: lp}
		var stream []byte
		for i, row := range rows {
			shs, err := w.shares(row)
			if err != nil {
				return nil, err
			}
			cont.Shares = append(cont.Shares, &shwappb.RowShares{Shares: pbShares(shs)})
			m := &shwappb.RowNamespaceData{Shares: pbShares(shs)}
			if i == 0 {
				m.Proof = fp
			} else if i == len(rows)-1 {
				m.Proof = lp
			}
			stream = append(stream, frame(m)...)
		}
		raw, err := cont.Marshal()
		if err != nil {
			return nil, err
		}
		out := []encoding{{"proto", raw}}
		// the shrex stream (a sequence of row messages) cannot carry a last-row proof next to a
		// single row; every other response exists in both encodings
		if !(len(rows) == 1 && lp != nil) {
			out = append(out, encoding{"stream", stream})
		}
		return out, nil
	}
	return nil, fmt.Errorf("unknown kind %q", kind)
}

// ----------------------------------------------------------------------------- the real verifiers

type verdict struct {
	accepted bool
	err      string
	panicked bool
	data     []libshare.Share // shares exposed by the accepted container
	rows     [][]libshare.Share // nd only: shares per entry
}

// realVerify decodes with the real codec and runs the real verifier, exactly as the getters do.
func realVerify(req request, roots *share.AxisRoots, enc encoding) (v verdict) {
	defer func() {
		if r := recover(); r != nil {
			v = verdict{panicked: true, err: fmt.Sprintf("panic: %v", r)}
		}
	}()
	w := len(roots.RowRoots) / 2
	rd := bytes.NewReader(enc.data)
	switch req.K {
	case "sample":
		var s shwap.Sample
		if _, err := s.ReadFrom(rd); err != nil {
			return verdict{err: "decode: " + err.Error()}
		}
		if s.IsEmpty() {
			return verdict{err: "nil response"}
		}
		if err := s.Verify(roots, req.R, req.C); err != nil {
			return verdict{err: err.Error()}
		}
		return verdict{accepted: true, data: []libshare.Share{s.Share}}
	case "row":
		var r shwap.Row
		if _, err := r.ReadFrom(rd); err != nil {
			return verdict{err: "decode: " + err.Error()}
		}
		if r.IsEmpty() {
			return verdict{err: "nil response"}
		}
		if err := r.Verify(roots, req.I); err != nil {
			return verdict{err: err.Error()}
		}
		shs, err := r.Shares()
		if err != nil {
			return verdict{err: "shares after verify: " + err.Error()}
		}
		return verdict{accepted: true, data: shs}
	case "rnd":
		var r shwap.RowNamespaceData
		if _, err := r.ReadFrom(rd); err != nil {
			return verdict{err: "decode: " + err.Error()}
		}
		if err := r.Verify(roots, square.Namespace(req.Ns), req.I); err != nil {
			return verdict{err: err.Error()}
		}
		return verdict{accepted: true, data: r.Shares}
	case "nd":
		var nd shwap.NamespaceData
		if _, err := nd.ReadFrom(rd); err != nil {
			return verdict{err: "decode: " + err.Error()}
		}
		if err := nd.Verify(roots, square.Namespace(req.Ns)); err != nil {
			return verdict{err: err.Error()}
		}
		rows := make([][]libshare.Share, len(nd))
		for i := range nd {
			rows[i] = nd[i].Shares
		}
		return verdict{accepted: true, data: nd.Flatten(), rows: rows}
	case "range":
		var rng shwap.RangeNamespaceData
		if enc.codec == "stream" {
			if _, err := rng.ReadFrom(rd); err != nil {
				return verdict{err: "decode: " + err.Error()}
			}
		} else {
			var m shwappb.RangeNamespaceData
			if err := m.Unmarshal(enc.data); err != nil {
				return verdict{err: "decode: " + err.Error()}
			}
			var err error
			rng, err = shwap.RangeNamespaceDataFromProto(&m)
			if err != nil {
				return verdict{err: "decode: " + err.Error()}
			}
		}
		// callers (shrex getter, bitswap block): from / to-1 -> coordinates, roots[from.Row:to.Row+1]
		from, err := shwap.SampleCoordsFrom1DIndex(req.From, w)
		if err != nil {
			return verdict{err: err.Error()}
		}
		to, err := shwap.SampleCoordsFrom1DIndex(req.To-1, w)
		if err != nil {
			return verdict{err: err.Error()}
		}
		rr := roots.RowRoots[from.Row : to.Row+1]
		if req.Nsc {
			err = rng.VerifyNamespace(from, to, w, rr)
		} else {
			err = rng.VerifyInclusion(from, to, w, rr)
		}
		if err != nil {
			return verdict{err: err.Error()}
		}
		return verdict{accepted: true, data: rng.Flatten()}
	}
	return verdict{err: "unknown kind"}
}

// committed returns what the header commits to at the requested position, straight from the square.
func committed(sq *square.Square, req request) []libshare.Share {
	switch req.K {
	case "sample":
		return []libshare.Share{sq.Share(req.R, req.C)}
	case "row":
		return sq.Row(req.I)
	case "rnd":
		var out []libshare.Share
		if req.I < sq.W() {
			for c := 0; c < sq.W(); c++ {
				if sq.Layout.Cells[req.I*sq.W()+c].NS == req.Ns {
					out = append(out, sq.Share(req.I, c))
				}
			}
		}
		return out
	case "nd":
		return sq.NamespaceShares(req.Ns)
	case "range":
		return sq.Range(req.From, req.To)
	}
	return nil
}

func sameShares(a, b []libshare.Share) bool {
	if len(a) != len(b) {
		return false
	}
	for i := range a {
		if !bytes.Equal(a[i].ToBytes(), b[i].ToBytes()) {
			return false
		}
	}
	return true
}

// ----------------------------------------------------------------------------- honest producers of the repository

// producerEncodings returns the encodings of what the repository's own producers answer to the
// request (nil when the producer refuses the request).
func producerEncodings(sq *square.Square, req request) (map[string][][]byte, error) {
	ctx := context.Background()
	out := map[string][][]byte{}
	accs := map[string]eds.Accessor{"rsmt2d": sq.Acc, "proofscache": eds.WithProofsCache(sq.Acc)}
	w := sq.W()
	switch req.K {
	case "sample":
		for name, acc := range accs {
			s, err := acc.Sample(ctx, shwap.SampleCoords{Row: req.R, Col: req.C})
			if err != nil {
				return nil, fmt.Errorf("%s: %w", name, err)
			}
			var buf bytes.Buffer
			if _, err := s.WriteTo(&buf); err != nil {
				return nil, err
			}
			out["stream"] = append(out["stream"], buf.Bytes())
		}
		s, err := sq.Acc.SampleForProofAxis(shwap.SampleCoords{Row: req.R, Col: req.C}, rsmt2d.Col)
		if err != nil {
			return nil, err
		}
		var buf bytes.Buffer
		if _, err := s.WriteTo(&buf); err != nil {
			return nil, err
		}
		out["stream"] = append(out["stream"], buf.Bytes())
	case "row":
		for _, side := range []shwap.RowSide{shwap.Left, shwap.Right, shwap.Both} {
			r, err := sq.Acc.HalfRow(req.I, side)
			if err != nil {
				return nil, err
			}
			var buf bytes.Buffer
			if _, err := r.WriteTo(&buf); err != nil {
				return nil, err
			}
			out["stream"] = append(out["stream"], buf.Bytes())
		}
		for name, acc := range accs {
			half, err := acc.AxisHalf(ctx, rsmt2d.Row, req.I)
			if err != nil {
				return nil, fmt.Errorf("%s: %w", name, err)
			}
			r := half.ToRow()
			var buf bytes.Buffer
			if _, err := r.WriteTo(&buf); err != nil {
				return nil, err
			}
			out["stream"] = append(out["stream"], buf.Bytes())
		}
	case "rnd":
		if req.I >= w {
			return nil, nil
		}
		for name, acc := range accs {
			r, err := acc.RowNamespaceData(ctx, square.Namespace(req.Ns), req.I)
			if err != nil {
				if strings.Contains(err.Error(), "outside of namespace range") || strings.Contains(err.Error(), "outside") {
					return nil, nil
				}
				return nil, fmt.Errorf("%s: %w", name, err)
			}
			var buf bytes.Buffer
			if _, err := r.WriteTo(&buf); err != nil {
				return nil, err
			}
			out["stream"] = append(out["stream"], buf.Bytes())
		}
	case "nd":
		for name, acc := range accs {
			nd, err := eds.NamespaceData(ctx, acc, square.Namespace(req.Ns))
			if err != nil {
				return nil, fmt.Errorf("%s: %w", name, err)
			}
			var buf bytes.Buffer
			if _, err := nd.WriteTo(&buf); err != nil {
				return nil, err
			}
			out["stream"] = append(out["stream"], buf.Bytes())
		}
	case "range":
		rng, err := sq.Acc.RangeNamespaceData(ctx, req.From, req.To)
		if err != nil {
			if strings.Contains(err.Error(), "mismatched namespace") {
				return nil, nil
			}
			return nil, err
		}
		var buf bytes.Buffer
		if _, err := rng.WriteTo(&buf); err != nil {
			return nil, err
		}
		out["stream"] = append(out["stream"], buf.Bytes())
		raw, err := rng.ToProto().Marshal()
		if err != nil {
			return nil, err
		}
		out["proto"] = append(out["proto"], raw)
	}
	return out, nil
}

func containsBytes(set [][]byte, b []byte) bool {
	for _, x := range set {
		if bytes.Equal(x, b) {
			return true
		}
	}
	return false
}

// ----------------------------------------------------------------------------- driver

func stepSignature(steps json.RawMessage) string {
	var st [][]any
	if err := json.Unmarshal(steps, &st); err != nil {
		return "?"
	}
	var parts []string
	for _, s := range st {
		var names []string
		for _, x := range s {
			if str, ok := x.(string); ok {
				names = append(names, str)
			}
		}
		parts = append(parts, strings.Join(names, "."))
	}
	return strings.Join(parts, "+")
}

type stats struct {
	cases, accepted, rejected, honest, honestProducerChecked, benignIdentical, panics, producerAnswers, honestRejected atomic.Int64
	acceptedForged                                                                 atomic.Int64
	perKind                                                                        sync.Map
}

func TestDriver(t *testing.T) {
	rep := vh.NewReport()
	defer func() {
		if err := rep.Write(); err != nil {
			t.Fatal(err)
		}
	}()
	salt = vh.Seed()*1_000_003 + 17
	prop := vh.Env("VERIF_PROP", "C01")
	path := os.Getenv("VERIF_CASES")
	if path == "" {
		t.Fatal("VERIF_CASES not set")
	}
	f, err := os.Open(path)
	if err != nil {
		t.Fatal(err)
	}
	defer f.Close()

	var st stats
	kindCount := map[string]*atomic.Int64{}
	for _, k := range []string{"sample", "row", "rnd", "nd", "range"} {
		kindCount[k] = &atomic.Int64{}
	}
	lines := make(chan []byte, 1024)
	var wg sync.WaitGroup
	nw := runtime.NumCPU()
	var honestPool sync.Map // kind -> a few honest (case, encodings) for the mutation pass
	var honestKept atomic.Int64
	for i := 0; i < nw; i++ {
		wg.Add(1)
		go func() {
			defer wg.Done()
			for line := range lines {
				var tc tcase
				if err := json.Unmarshal(line, &tc); err != nil {
					rep.Inconclusivef("cannot parse case: %v: %.200s", err, line)
					continue
				}
				runCase(rep, prop, &tc, &st, kindCount)
				if tc.Hon && honestKept.Load() < 4000 {
					honestKept.Add(1)
					honestPool.Store(string(line), true)
				}
			}
		}()
	}
	sc := bufio.NewScanner(f)
	sc.Buffer(make([]byte, 1<<20), 1<<26)
	for sc.Scan() {
		b := append([]byte(nil), sc.Bytes()...)
		if len(bytes.TrimSpace(b)) == 0 {
			continue
		}
		lines <- b
	}
	close(lines)
	wg.Wait()
	if err := sc.Err(); err != nil {
		t.Fatal(err)
	}

	// counterexamples of the pre-fix range model (sensitivity / regression of the repaired defect)
	if rp := os.Getenv("VERIF_REGRESS_CASES"); rp != "" {
		var rst stats
		rf, err := os.Open(rp)
		if err != nil {
			t.Fatal(err)
		}
		rsc := bufio.NewScanner(rf)
		rsc.Buffer(make([]byte, 1<<20), 1<<26)
		for rsc.Scan() {
			var tc tcase
			if err := json.Unmarshal(rsc.Bytes(), &tc); err != nil {
				rep.Inconclusivef("cannot parse pre-fix counterexample: %v", err)
				continue
			}
			runRegress(rep, prop, &tc, &rst)
		}
		rf.Close()
		rep.Count("regress_cases", rst.cases.Load())
		rep.Count("regress_refused", rst.rejected.Load())
		rep.Count("regress_accepted_wrong", rst.acceptedForged.Load())
	}
	// sampled complement: byte / field level mutations of honest encodings
	mutations := mutationPass(rep, prop, &honestPool)
	wideNamespacePass(t, rep, prop) // directed family: namespaces over many rows of wide squares (wide_test.go)

	rep.Count("cases_replayed", st.cases.Load())
	rep.Count("traces_validated_against_impl", st.cases.Load())
	rep.Count("real_accepted", st.accepted.Load())
	rep.Count("real_rejected", st.rejected.Load())
	rep.Count("real_accepted_forged_but_equal", st.acceptedForged.Load())
	rep.Count("honest_cases", st.honest.Load())
	rep.Count("honest_identical_to_producers", st.honestProducerChecked.Load())
	rep.Count("forged_identical_to_honest_bytes", st.benignIdentical.Load())
	rep.Count("producer_answers_verified", st.producerAnswers.Load())
	rep.Count("honest_rejected", st.honestRejected.Load())
	rep.Count("real_panics", st.panics.Load())
	rep.Count("byte_mutations_sampled", mutations)
	for k, c := range kindCount {
		rep.Count("cases_"+k, c.Load())
	}
	rep.Set("seed", vh.Seed())
	rep.Set("cases", st.cases.Load())
	rep.Set("accepted", st.accepted.Load())
	rep.Set("mutations", mutations)
	if st.cases.Load() == 0 {
		rep.Inconclusivef("no case was replayed")
	}
}

// unsoundSignature names the class of an accepted wrong response structurally.
func unsoundSignature(prop string, tc *tcase, steps string) string {
	if tc.Req.K == "range" {
		if rows, err := rangeRows(tc.Resp); err == nil && tc.W > 0 && tc.Req.To > tc.Req.From {
			fr, fc := tc.Req.From/tc.W, tc.Req.From%tc.W
			tr, tcol := (tc.Req.To-1)/tc.W, (tc.Req.To-1)%tc.W
			if len(rows) == tr-fr+1 {
				for k, row := range rows {
					a, b := 0, tc.W
					if k == 0 {
						a = fc
					}
					if k == len(rows)-1 {
						b = tcol + 1
					}
					if len(row) != b-a {
						return prop + "/range/accepted-resliced-rows"
					}
				}
			}
		}
	}
	return fmt.Sprintf("%s/%s/unsound:%s", prop, tc.Req.K, steps)
}

// runRegress replays counterexamples of the PRE-FIX model: the real code must refuse them (or at
// least not expose wrong shares).
func runRegress(rep *vh.Report, prop string, tc *tcase, st *stats) {
	w, err := getWorld(tc)
	if err != nil {
		rep.Inconclusivef("cannot build square for case: %v", err)
		return
	}
	encs, err := w.encode(tc.Req.K, tc.Resp)
	if err != nil {
		rep.Inconclusivef("cannot materialise pre-fix counterexample: %v", err)
		return
	}
	st.cases.Add(1)
	want := committed(w.sq[1], tc.Req)
	sig := stepSignature(tc.Steps)
	for _, enc := range encs {
		v := realVerify(tc.Req, w.sq[1].Roots, enc)
		if v.accepted && !sameShares(v.data, want) {
			st.acceptedForged.Add(1)
			rep.Violate(unsoundSignature(prop, tc, sig),
				fmt.Sprintf("counterexample of the pre-fix range model reproduced on the real code: %s verifier accepted %d shares that differ from the committed shares of %+v (codec %s, w=%d, forgery %s)",
					tc.Req.K, len(v.data), tc.Req, enc.codec, tc.W, sig),
				map[string]any{"case": tc, "codec": enc.codec, "seed": vh.Seed()})
		} else {
			st.rejected.Add(1)
		}
	}
}

func runCase(rep *vh.Report, prop string, tc *tcase, st *stats, kindCount map[string]*atomic.Int64) {
	w, err := getWorld(tc)
	if err != nil {
		rep.Inconclusivef("cannot build square for case: %v", err)
		return
	}
	encs, err := w.encode(tc.Req.K, tc.Resp)
	if err != nil {
		rep.Inconclusivef("cannot materialise case %s %s: %v", tc.Req.K, stepSignature(tc.Steps), err)
		return
	}
	st.cases.Add(1)
	if c := kindCount[tc.Req.K]; c != nil {
		c.Add(1)
	}
	sq := w.sq[1]
	want := committed(sq, tc.Req)
	var prod map[string][][]byte
	if tc.Hon {
		st.honest.Add(1)
		prod, err = producerEncodings(sq, tc.Req)
		if err != nil {
			rep.Inconclusivef("real producer failed for honest case %+v: %v", tc.Req, err)
		}
	}
	sig := stepSignature(tc.Steps)
	// every answer of the repository's own producers (eds.Rsmt2D and the proofs cache) must verify and
	// expose the committed shares; the two producers of (row) namespace data must agree byte for byte
	if tc.Hon && prod != nil {
		for codec, set := range prod {
			for _, data := range set {
				v := realVerify(tc.Req, sq.Roots, encoding{codec, data})
				if v.accepted && !sameShares(v.data, want) {
					rep.Violate(fmt.Sprintf("%s/%s/producer-answer-accepted-with-wrong-shares", prop, tc.Req.K),
						fmt.Sprintf("an answer of the repository's producers for %+v (w=%d ns=%v, codec %s) verifies but exposes shares that differ from the committed ones",
							tc.Req, tc.W, tc.Ns, codec),
						map[string]any{"case": tc, "codec": codec, "seed": vh.Seed()})
				} else if !v.accepted {
					rep.Inconclusivef("an answer of the repository's producers for %+v (w=%d ns=%v, codec %s) is rejected by the real verifier: %s", tc.Req, tc.W, tc.Ns, codec, v.err)
					st.honestRejected.Add(1)
				}
			}
			if (tc.Req.K == "nd" || tc.Req.K == "rnd") && len(set) > 1 {
				for _, data := range set[1:] {
					if !bytes.Equal(data, set[0]) {
						rep.Inconclusivef("the two producers (direct NMT build, proofs-cache tree walk) return different bytes for %+v w=%d ns=%v", tc.Req, tc.W, tc.Ns)
					}
				}
			}
		}
		st.producerAnswers.Add(int64(len(prod["stream"]) + len(prod["proto"])))
	}
	for _, enc := range encs {
		v := realVerify(tc.Req, sq.Roots, enc)
		if v.panicked {
			st.panics.Add(1)
			rep.Sample(map[string]any{"panic": v.err, "req": tc.Req, "steps": sig})
		}
		if v.accepted {
			st.accepted.Add(1)
		} else {
			st.rejected.Add(1)
		}
		replay := map[string]any{"case": tc, "codec": enc.codec, "real_error": v.err, "seed": vh.Seed()}
		// (i) the property: accepted => exactly the committed shares
		if v.accepted && !sameShares(v.data, want) {
			rep.Violate(unsoundSignature(prop, tc, sig),
				fmt.Sprintf("real %s verifier accepted a response whose %d shares differ from the %d committed shares of %+v (codec %s, w=%d, forgery %s; model verdict acc=%v)",
					tc.Req.K, len(v.data), len(want), tc.Req, enc.codec, tc.W, sig, tc.Acc), replay)
			continue
		}
		// C02 shape clause: one entry per covering row, each with exactly that row's shares of the namespace
		if v.accepted && tc.Req.K == "nd" {
			cover := sq.RowsCovering(tc.Req.Ns)
			okShape := len(cover) == len(v.rows)
			for i := 0; okShape && i < len(cover); i++ {
				okShape = sameShares(v.rows[i], committed(sq, request{K: "rnd", I: cover[i], Ns: tc.Req.Ns}))
			}
			if !okShape {
				rep.Violate(fmt.Sprintf("%s/nd/accepted-wrong-row-structure:%s", prop, sig),
					fmt.Sprintf("real NamespaceData.Verify accepted %d entries for namespace %d whose per-row shares are not those of the covering rows %v (w=%d ns=%v, forgery %s)",
						len(v.rows), tc.Req.Ns, cover, tc.W, tc.Ns, sig), replay)
				continue
			}
		}
		// (iii) honest responses verify, and are what the real producers return
		if tc.Hon {
			if !v.accepted {
				// C01 / C02 are soundness statements: refusing an honest answer does not violate them, but
				// it makes every verdict of this run vacuous and contradicts the model (Complete)
				rep.Inconclusivef("the honest response for %+v (w=%d ns=%v, codec %s) was REJECTED by the real verifier: %s", tc.Req, tc.W, tc.Ns, enc.codec, v.err)
				st.honestRejected.Add(1)
				continue
			}
			if prod != nil {
				if set, ok := prod[enc.codec]; ok {
					if containsBytes(set, enc.data) {
						st.honestProducerChecked.Add(1)
					} else {
						rep.Inconclusivef("honest recipe for %+v (w=%d ns=%v codec %s) is not byte-identical to any answer of the real producers: the specification's Honest* operators are stale",
							tc.Req, tc.W, tc.Ns, enc.codec)
					}
				}
			}
		}
		if v.accepted && !tc.Hon {
			st.acceptedForged.Add(1)
		}
		// (ii) conformance of the transcription
		if v.accepted != tc.Acc {
			// A "forged" recipe whose bytes are exactly an honest answer of the real producers is not
			// a forgery (equal payloads / symmetric squares make different recipes coincide; the term
			// model of Square.tla does not know every such coincidence): acceptance is then required.
			if v.accepted && !tc.Acc {
				if prod == nil {
					prod, _ = producerEncodings(sq, tc.Req)
				}
				if prod != nil && containsBytes(prod[enc.codec], enc.data) {
					st.benignIdentical.Add(1)
					continue
				}
			}
			rep.Inconclusivef("verdict drift (%s, codec %s): model ImplAccept=%v, real accepted=%v (%s) for %+v w=%d ns=%v pid=%v forgery %s resp=%s",
				tc.Req.K, enc.codec, tc.Acc, v.accepted, v.err, tc.Req, tc.W, tc.Ns, tc.Pid, sig, compact(tc.Resp))
		}
	}
	if st.cases.Load()%5000 == 1 {
		rep.Sample(map[string]any{"req": tc.Req, "w": tc.W, "ns": tc.Ns, "steps": sig, "model_acc": tc.Acc})
	}
}

func compact(r recipe) string {
	b, _ := json.Marshal(r)
	if len(b) > 600 {
		b = b[:600]
	}
	return string(b)
}

// ----------------------------------------------------------------------------- sampled byte / field mutations

// mutationPass garbles honest encodings with a seeded generator. The model's statement for the
// abstract action Garble is "rejected, or the exposed shares still equal the committed ones".
func mutationPass(rep *vh.Report, prop string, pool *sync.Map) int64 {
	rng := rand.New(rand.NewSource(vh.Seed()*7919 + 3))
	var lines []string
	pool.Range(func(k, _ any) bool { lines = append(lines, k.(string)); return true })
	if len(lines) == 0 {
		return 0
	}
	// deterministic order
	sortStrings(lines)
	perCase := 24
	if vh.Thorough() {
		perCase = 120
	}
	maxCases := 400
	if vh.Thorough() {
		maxCases = 2500
	}
	if len(lines) > maxCases {
		rng.Shuffle(len(lines), func(i, j int) { lines[i], lines[j] = lines[j], lines[i] })
		lines = lines[:maxCases]
	}
	var n, accepted int64
	for _, line := range lines {
		var tc tcase
		if err := json.Unmarshal([]byte(line), &tc); err != nil {
			continue
		}
		w, err := getWorld(&tc)
		if err != nil {
			continue
		}
		encs, err := w.encode(tc.Req.K, tc.Resp)
		if err != nil {
			continue
		}
		want := committed(w.sq[1], tc.Req)
		for _, enc := range encs {
			for i := 0; i < perCase; i++ {
				mut, how := garble(rng, enc.data)
				if i%4 == 3 {
					if m, h, ok := fieldMutate(rng, tc.Req.K, enc); ok {
						mut, how = m, h
					}
				}
				if bytes.Equal(mut, enc.data) {
					continue
				}
				n++
				v := realVerify(tc.Req, w.sq[1].Roots, encoding{enc.codec, mut})
				if v.panicked {
					rep.Count("real_panics_on_mutated_bytes", 1)
					rep.Sample(map[string]any{"panic_on_mutation": v.err, "req": tc.Req, "how": how})
				}
				if v.accepted {
					accepted++
					if !sameShares(v.data, want) {
						rep.Violate(fmt.Sprintf("%s/%s/unsound:byte-mutation", prop, tc.Req.K),
							fmt.Sprintf("real %s verifier accepted a byte-mutated encoding (%s, codec %s) exposing shares that differ from the committed ones for %+v (w=%d)",
								tc.Req.K, how, enc.codec, tc.Req, tc.W),
							map[string]any{"case": tc, "codec": enc.codec, "mutation": how, "bytes_hex": fmt.Sprintf("%x", mut), "seed": vh.Seed()})
					}
				}
			}
		}
	}
	rep.Count("byte_mutations_accepted_equal", accepted)
	return n
}

func sortStrings(s []string) { sort.Strings(s) }

// weird returns boundary values for an integer proof field.
func weird(rng *rand.Rand, cur int64) int64 {
	vals := []int64{-1, 0, 1, cur + 1, cur - 1, cur + 2, 2 * cur, 1 << 31, 1<<31 - 1, 1 << 32, 1<<62 + 1, -(1 << 31), -cur}
	return vals[rng.Intn(len(vals))]
}

func mutateProof(rng *rand.Rand, p *nmt_pb.Proof) string {
	if p == nil {
		return ""
	}
	switch rng.Intn(6) {
	case 0:
		p.Start = weird(rng, p.Start)
		return fmt.Sprintf("proof.start=%d", p.Start)
	case 1:
		p.End = weird(rng, p.End)
		return fmt.Sprintf("proof.end=%d", p.End)
	case 2:
		d := weird(rng, 1)
		p.Start += d
		p.End += d
		return fmt.Sprintf("proof.shift%+d", d)
	case 3:
		if len(p.Nodes) > 0 {
			i := rng.Intn(len(p.Nodes))
			p.Nodes[i] = append([]byte{}, p.Nodes[i][:rng.Intn(len(p.Nodes[i])+1)]...)
			return fmt.Sprintf("proof.node%d truncated to %d bytes", i, len(p.Nodes[i]))
		}
		p.Nodes = [][]byte{make([]byte, 90)}
		return "proof.nodes=[zero node]"
	case 4:
		if len(p.LeafHash) > 0 {
			p.LeafHash = p.LeafHash[:rng.Intn(len(p.LeafHash))]
			return "proof.leafhash truncated"
		}
		p.LeafHash = make([]byte, 90)
		return "proof.leafhash=zero"
	default:
		if len(p.Nodes) > 1 {
			i, j := rng.Intn(len(p.Nodes)), rng.Intn(len(p.Nodes))
			p.Nodes[i], p.Nodes[j] = p.Nodes[j], p.Nodes[i]
			return fmt.Sprintf("proof.nodes swap %d,%d", i, j)
		}
		p.IsMaxNamespaceIgnored = !p.IsMaxNamespaceIgnored
		return "proof.flag"
	}
}

// fieldMutate decodes a single-message encoding into its protobuf struct, sets one field to a
// boundary value (negative / huge start and end, truncated nodes, unknown enum values, short
// shares) and encodes it again.
func fieldMutate(rng *rand.Rand, kind string, enc encoding) ([]byte, string, bool) {
	switch {
	case kind == "sample":
		var m shwappb.Sample
		if _, err := serde.Read(bytes.NewReader(enc.data), &m); err != nil {
			return nil, "", false
		}
		switch rng.Intn(4) {
		case 0:
			m.ProofType = shwappb.AxisType(weird(rng, int64(m.ProofType)))
			return frame(&m), fmt.Sprintf("sample.proof_type=%d", m.ProofType), true
		case 1:
			if m.Share != nil && len(m.Share.Data) > 0 {
				m.Share.Data = m.Share.Data[:rng.Intn(len(m.Share.Data))]
				return frame(&m), fmt.Sprintf("sample.share truncated to %d", len(m.Share.Data)), true
			}
		}
		if how := mutateProof(rng, m.Proof); how != "" {
			return frame(&m), "sample." + how, true
		}
	case kind == "rnd":
		var m shwappb.RowNamespaceData
		if _, err := serde.Read(bytes.NewReader(enc.data), &m); err != nil {
			return nil, "", false
		}
		if how := mutateProof(rng, m.Proof); how != "" {
			return frame(&m), "rnd." + how, true
		}
	case kind == "row":
		var m shwappb.Row
		if _, err := serde.Read(bytes.NewReader(enc.data), &m); err != nil {
			return nil, "", false
		}
		m.HalfSide = shwappb.Row_HalfSide(weird(rng, int64(m.HalfSide)))
		return frame(&m), fmt.Sprintf("row.half_side=%d", m.HalfSide), true
	case kind == "range" && enc.codec == "proto":
		var m shwappb.RangeNamespaceData
		if err := m.Unmarshal(enc.data); err != nil {
			return nil, "", false
		}
		pf := m.FirstIncompleteRowProof
		name := "range.first."
		if pf == nil || rng.Intn(2) == 0 && m.LastIncompleteRowProof != nil {
			pf, name = m.LastIncompleteRowProof, "range.last."
		}
		if how := mutateProof(rng, pf); how != "" {
			raw, err := m.Marshal()
			if err != nil {
				return nil, "", false
			}
			return raw, name + how, true
		}
	}
	return nil, "", false
}

// garble applies one random mutation; offsets are biased towards structure (framing, tags, proof
// fields) rather than share payload, where every flip trivially breaks the hash.
func garble(rng *rand.Rand, in []byte) ([]byte, string) {
	if len(in) == 0 {
		return []byte{byte(rng.Intn(256))}, "insert into empty"
	}
	b := append([]byte(nil), in...)
	pick := func() int {
		switch rng.Intn(4) {
		case 0:
			return rng.Intn(min(len(b), 12)) // framing + first tags
		case 1:
			return len(b) - 1 - rng.Intn(min(len(b), 160)) // proof tail (start/end/nodes/flags)
		case 2:
			// right after a share boundary: tags and lengths sit there
			k := rng.Intn(len(b)/libshare.ShareSize + 1)
			off := k*(libshare.ShareSize+5) + rng.Intn(8)
			if off >= len(b) {
				off = len(b) - 1
			}
			return off
		default:
			return rng.Intn(len(b))
		}
	}
	switch rng.Intn(7) {
	case 0:
		i := pick()
		b[i] ^= 1 << uint(rng.Intn(8))
		return b, fmt.Sprintf("bitflip@%d", i)
	case 1:
		i := pick()
		b[i] = byte(rng.Intn(256))
		return b, fmt.Sprintf("setbyte@%d", i)
	case 2:
		i := pick()
		b[i]++
		return b, fmt.Sprintf("inc@%d", i)
	case 3:
		i := pick()
		b[i]--
		return b, fmt.Sprintf("dec@%d", i)
	case 4:
		n := 1 + rng.Intn(min(len(b), 64))
		return b[:len(b)-n], fmt.Sprintf("truncate-%d", n)
	case 5:
		i := pick()
		out := append(append(append([]byte{}, b[:i]...), byte(rng.Intn(256))), b[i:]...)
		return out, fmt.Sprintf("insert@%d", i)
	default:
		i := pick()
		out := append(append([]byte{}, b[:i]...), b[i+1:]...)
		return out, fmt.Sprintf("delete@%d", i)
	}
}

var _ = io.EOF
