// Driver for C12 (inclusion proofs handed to clients verify, and only for what they claim).
//
// Binding of spec/proofs/Proofs.tla (B3, case enumeration): every case TLC enumerated -- a proof family
// (commitment proof, range result, data-root tuple proof, Included), an object of the model's world and
// at most two composed structural manipulations -- is materialised on REAL blocks (built by the real
// square builder exactly as the model's world describes) and a REAL header chain: the proof is produced
// by the real producer (blob.Service.GetCommitmentProof / GetProof, share module GetRange ->
// newGetRangeResult, blobstream.Service), the manipulations are applied to the real Go values, and the
// real verifier is called under recover().
//
// Oracle (independent of the model): the claim a presentation makes -- (data root, commitment),
// (data root, shares at the coordinates the proofs bind), (tuple root, tuple), (block, namespace, proof,
// commitment) -- is evaluated against the blocks and headers the world was built from.
//
//	honest presentation rejected                 => violation
//	accepted although the claim is false         => violation
//	any panic                                    => violation
//	Included != (true,nil) <=> claim false       (both directions)
//
// The same families are repeated on a world of large blobs (subtree width > 1) and on the JSON form
// (round trip of every honest object, seeded byte mutations of the JSON).
package proofs

import (
	"bytes"
	"context"
	"encoding/binary"
	"encoding/json"
	"fmt"
	"math/rand"
	"os"
	"strings"
	"testing"
	"time"

	"github.com/cometbft/cometbft/crypto/merkle"
	tmbytes "github.com/cometbft/cometbft/libs/bytes"
	tmproto "github.com/cometbft/cometbft/proto/tendermint/types"
	coretypes "github.com/cometbft/cometbft/types"
	logging "github.com/ipfs/go-log/v2"

	"github.com/celestiaorg/celestia-app/v9/pkg/appconsts"
	appproof "github.com/celestiaorg/celestia-app/v9/pkg/proof"
	gsmerkle "github.com/celestiaorg/go-square/merkle"
	"github.com/celestiaorg/go-square/v4/inclusion"
	libshare "github.com/celestiaorg/go-square/v4/share"
	"github.com/celestiaorg/nmt"

	nodeblob "github.com/celestiaorg/celestia-node/blob"
	"github.com/celestiaorg/celestia-node/header"
	"github.com/celestiaorg/celestia-node/header/headertest"
	"github.com/celestiaorg/celestia-node/nodebuilder/blobstream"
	headerServ "github.com/celestiaorg/celestia-node/nodebuilder/header"
	nodeshare "github.com/celestiaorg/celestia-node/nodebuilder/share"

	"verifharness/blobsq"
	"verifharness/vh"
)

// ---------------------------------------------------------------------------------------------- cases

type Case struct {
	Kind    string     `json:"kind"`
	Obj     []int      `json:"obj"`
	Tampers [][]string `json:"tampers"`
	Verdict string     `json:"verdict"`
	Truth   bool       `json:"truth"`
}

func (c Case) String() string {
	var ts []string
	for _, t := range c.Tampers {
		ts = append(ts, strings.Join(t, "."))
	}
	return fmt.Sprintf("%s%v[%s]", c.Kind, c.Obj, strings.Join(ts, ","))
}

// ---------------------------------------------------------------------------------------------- world

type hsStub struct {
	headerServ.Module
	get func(context.Context, uint64) (*header.ExtendedHeader, error)
}

func (h hsStub) GetByHeight(ctx context.Context, height uint64) (*header.ExtendedHeader, error) {
	return h.get(ctx, height)
}

type world struct {
	t      *testing.T
	ctx    context.Context
	rep    *vh.Report
	rng    *rand.Rand
	blocks map[int]*blobsq.Block // square id -> block (height = id)
	mem    *blobsq.MemGetter
	svc    *nodeblob.Service
	shr    nodeshare.Module
	coms   map[[2]int]nodeblob.Commitment
	bs     *blobstream.Service
	hdrs   map[uint64]*header.ExtendedHeader
	head   uint64
	// single manipulations that were accepted although the claim is false (signature attribution)
	badSingles map[string]bool
}

// The model's world (Proofs.tla SqBlobs) and its large-blob sibling (squares 3, 4: same structure).
func worldCases() map[int]blobsq.Case {
	T := appconsts.SubtreeRootThreshold
	return map[int]blobsq.Case{
		1: {T: T, Compact: 1, W: 4, Starts: []int{1, 10, 12}, Blobs: []blobsq.MBlob{{Ns: 2, Len: 9, Ver: 0, C: 1}, {Ns: 2, Len: 2, Ver: 1, C: 1}, {Ns: 4, Len: 3, Ver: 0, C: 1}}},
		2: {T: T, Compact: 1, W: 4, Starts: []int{1, 10, 13}, Blobs: []blobsq.MBlob{{Ns: 2, Len: 9, Ver: 0, C: 2}, {Ns: 4, Len: 3, Ver: 0, C: 1}, {Ns: 4, Len: 1, Ver: 1, C: 1}}},
		3: {T: T, Compact: 2, Blobs: []blobsq.MBlob{{Ns: 2, Len: 130, Ver: 0, C: 1}, {Ns: 2, Len: 65, Ver: 1, C: 1}, {Ns: 4, Len: 17, Ver: 0, C: 1}}},
		4: {T: T, Compact: 2, Blobs: []blobsq.MBlob{{Ns: 2, Len: 130, Ver: 0, C: 2}, {Ns: 4, Len: 17, Ver: 0, C: 1}, {Ns: 4, Len: 1, Ver: 1, C: 1}}},
	}
}

func newWorld(t *testing.T, rep *vh.Report, ctx context.Context) *world {
	w := &world{t: t, ctx: ctx, rep: rep, rng: vh.Rand(), blocks: map[int]*blobsq.Block{}, mem: blobsq.NewMemGetter(),
		coms: map[[2]int]nodeblob.Commitment{}, hdrs: map[uint64]*header.ExtendedHeader{}, badSingles: map[string]bool{}}
	for id, c := range worldCases() {
		b, err := blobsq.Build(c, uint64(id), vh.Seed(), w.rng)
		if err != nil {
			t.Fatalf("world square %d: %v", id, err)
		}
		if c.W != 0 {
			if b.W != c.W {
				t.Fatalf("world square %d: width %d, the model's world has %d", id, b.W, c.W)
			}
			for i, s := range c.Starts {
				if b.RealStarts[i] != s {
					t.Fatalf("world square %d: blob %d starts at %d, the model's world has %d", id, i, b.RealStarts[i], s)
				}
			}
		}
		w.blocks[id] = b
		w.mem.Add(b)
		nbs, err := nodeblob.ToNodeBlobs(b.Blobs...)
		if err != nil {
			t.Fatal(err)
		}
		for i, nb := range nbs {
			w.coms[[2]int{id, i + 1}] = nb.Commitment
		}
	}
	w.svc = nodeblob.NewService(nil, w.mem, w.mem.HeaderByHeight, nil)
	w.shr = nodeshare.VerifNewModule(w.mem, nil, hsStub{get: w.mem.HeaderByHeight})
	// header chain for blobstream: real headers (headertest suite), heights 1..5
	st := headertest.NewCustomStore(t, headertest.NewTestSuite(t), 5)
	hd, err := st.Head(ctx)
	if err != nil {
		t.Fatal(err)
	}
	w.head = hd.Height()
	if w.head != 5 {
		t.Fatalf("header chain head is %d, the model's world has 5", w.head)
	}
	for h := uint64(1); h <= w.head; h++ {
		eh, err := st.GetByHeight(ctx, h)
		if err != nil {
			t.Fatal(err)
		}
		w.hdrs[h] = eh
	}
	w.bs = blobstream.NewService(st)
	return w
}

func (w *world) ns(s, b int) libshare.Namespace { return w.blocks[s].Blobs[b-1].Namespace() }
func (w *world) root(s int) []byte             { return w.blocks[s].Roots.Hash() }
func otherSq(s int) int                         { return s + 1 - 2*((s+1)%2) } // 1<->2, 3<->4
func otherBlob(b int) int {
	if b == 1 {
		return 2
	}
	return 1
}

// ---------------------------------------------------------------------------------------------- clones

func cpBytes(b []byte) []byte { return append([]byte(nil), b...) }
func cpBytess(b [][]byte) [][]byte {
	if b == nil {
		return nil
	}
	o := make([][]byte, len(b))
	for i := range b {
		o[i] = cpBytes(b[i])
	}
	return o
}

func cloneNmt(p *nmt.Proof) *nmt.Proof {
	if p == nil {
		return nil
	}
	var q nmt.Proof
	if len(p.LeafHash()) > 0 {
		q = nmt.NewAbsenceProof(p.Start(), p.End(), cpBytess(p.Nodes()), cpBytes(p.LeafHash()), p.IsMaxNamespaceIDIgnored())
	} else {
		q = nmt.NewInclusionProof(p.Start(), p.End(), cpBytess(p.Nodes()), p.IsMaxNamespaceIDIgnored())
	}
	return &q
}

func cloneCP(p *nodeblob.CommitmentProof) *nodeblob.CommitmentProof {
	q := &nodeblob.CommitmentProof{SubtreeRoots: cpBytess(p.SubtreeRoots), NamespaceID: cpBytes(p.NamespaceID), NamespaceVersion: p.NamespaceVersion}
	for _, sp := range p.SubtreeRootProofs {
		q.SubtreeRootProofs = append(q.SubtreeRootProofs, cloneNmt(sp))
	}
	q.RowProof = appproof.RowProof{RowRoots: cpBytess(p.RowProof.RowRoots), Root: cpBytes(p.RowProof.Root), StartRow: p.RowProof.StartRow, EndRow: p.RowProof.EndRow}
	for _, mp := range p.RowProof.Proofs {
		if mp == nil {
			q.RowProof.Proofs = append(q.RowProof.Proofs, nil)
			continue
		}
		q.RowProof.Proofs = append(q.RowProof.Proofs, &appproof.Proof{Total: mp.Total, Index: mp.Index, LeafHash: cpBytes(mp.LeafHash), Aunts: cpBytess(mp.Aunts)})
	}
	return q
}

func cloneRR(r *nodeshare.GetRangeResult) *nodeshare.GetRangeResult {
	q := &nodeshare.GetRangeResult{Shares: append([]libshare.Share(nil), r.Shares...)}
	if r.Proof == nil {
		return q
	}
	p := r.Proof
	sp := &coretypes.ShareProof{Data: cpBytess(p.Data), NamespaceID: cpBytes(p.NamespaceID), NamespaceVersion: p.NamespaceVersion}
	for _, x := range p.ShareProofs {
		if x == nil {
			sp.ShareProofs = append(sp.ShareProofs, nil)
			continue
		}
		sp.ShareProofs = append(sp.ShareProofs, &tmproto.NMTProof{Start: x.Start, End: x.End, Nodes: cpBytess(x.Nodes), LeafHash: cpBytes(x.LeafHash)})
	}
	sp.RowProof = coretypes.RowProof{StartRow: p.RowProof.StartRow, EndRow: p.RowProof.EndRow}
	for _, rr := range p.RowProof.RowRoots {
		sp.RowProof.RowRoots = append(sp.RowProof.RowRoots, tmbytes.HexBytes(cpBytes(rr)))
	}
	for _, mp := range p.RowProof.Proofs {
		if mp == nil {
			sp.RowProof.Proofs = append(sp.RowProof.Proofs, nil)
			continue
		}
		sp.RowProof.Proofs = append(sp.RowProof.Proofs, &merkle.Proof{Total: mp.Total, Index: mp.Index, LeafHash: cpBytes(mp.LeafHash), Aunts: cpBytess(mp.Aunts)})
	}
	q.Proof = sp
	return q
}

func cloneBlobProof(p nodeblob.Proof) nodeblob.Proof {
	q := make(nodeblob.Proof, len(p))
	for i := range p {
		q[i] = cloneNmt(p[i])
	}
	return q
}

// ---------------------------------------------------------------------------------------------- generic sequence ops

// seqOp applies a model sequence manipulation. nilv is the "nil"/empty element, oth the other object's sequence.
func seqOp[E any](op string, q []E, oth []E, nilv E) []E {
	switch op {
	case "dropFirst":
		if len(q) > 0 {
			return q[1:]
		}
	case "dropLast":
		if len(q) > 0 {
			return q[:len(q)-1]
		}
	case "dupLast":
		if len(q) > 0 {
			return append(q, q[len(q)-1])
		}
	case "swap01":
		if len(q) >= 2 {
			q[0], q[1] = q[1], q[0]
		}
	case "nil0":
		if len(q) > 0 {
			q[0] = nilv
		}
	case "other0":
		if len(q) > 0 && len(oth) > 0 {
			q[0] = oth[0]
		}
	default:
		panic("unknown sequence op " + op)
	}
	return q
}

var errSkip = fmt.Errorf("manipulation not applicable to the real value")

func junkNode(n int, rng *rand.Rand) []byte {
	b := make([]byte, n)
	rng.Read(b)
	return b
}

// nmtOp applies a model manipulation to an nmt.Proof.
func nmtOp(op string, p *nmt.Proof, rng *rand.Rand) (*nmt.Proof, error) {
	if p == nil {
		return nil, nil
	}
	start, end, nodes, lh := p.Start(), p.End(), cpBytess(p.Nodes()), cpBytes(p.LeafHash())
	switch op {
	case "start+1":
		start++
	case "end+1":
		end++
	case "end-1":
		end--
	case "dropNode":
		if len(nodes) == 0 {
			return nil, errSkip
		}
		nodes = nodes[:len(nodes)-1]
	case "addNode":
		nodes = append(nodes, junkNode(2*libshare.NamespaceSize+32, rng))
	case "altNode":
		if len(nodes) == 0 {
			return nil, errSkip
		}
		nodes[0][len(nodes[0])-1] ^= 0x5A
	case "altLeafHash":
		lh = junkNode(2*libshare.NamespaceSize+32, rng)
	default:
		panic("unknown nmt op " + op)
	}
	var q nmt.Proof
	if len(lh) > 0 {
		q = nmt.NewAbsenceProof(start, end, nodes, lh, p.IsMaxNamespaceIDIgnored())
	} else {
		q = nmt.NewInclusionProof(start, end, nodes, p.IsMaxNamespaceIDIgnored())
	}
	return &q, nil
}

func pbNmtOp(op string, p *tmproto.NMTProof, rng *rand.Rand) error {
	if p == nil {
		return nil
	}
	switch op {
	case "start+1":
		p.Start++
	case "end+1":
		p.End++
	case "end-1":
		p.End--
	case "dropNode":
		if len(p.Nodes) == 0 {
			return errSkip
		}
		p.Nodes = p.Nodes[:len(p.Nodes)-1]
	case "addNode":
		p.Nodes = append(p.Nodes, junkNode(2*libshare.NamespaceSize+32, rng))
	case "altNode":
		if len(p.Nodes) == 0 {
			return errSkip
		}
		p.Nodes[0][len(p.Nodes[0])-1] ^= 0x5A
	default:
		panic("unknown nmt op " + op)
	}
	return nil
}

func mpOp(op string, total, index *int64, aunts *[][]byte, rng *rand.Rand) error {
	switch op {
	case "index+1":
		*index++
	case "total+1":
		*total++
	case "dropAunt":
		if len(*aunts) == 0 {
			return errSkip
		}
		*aunts = (*aunts)[:len(*aunts)-1]
	case "addAunt":
		*aunts = append(*aunts, junkNode(32, rng))
	default:
		panic("unknown merkle op " + op)
	}
	return nil
}

func otherNsID(w *world, s int, cur []byte) []byte {
	a, b := blobsq.Namespace(2), blobsq.Namespace(4)
	if bytes.Equal(cur, a.ID()) {
		return cpBytes(b.ID())
	}
	return cpBytes(a.ID())
}

// ---------------------------------------------------------------------------------------------- commitment proofs

type cpPres struct {
	proof *nodeblob.CommitmentProof
	com   []byte
	root  []byte
}

func (w *world) honestCP(s, b int) (*nodeblob.CommitmentProof, error) {
	return w.svc.GetCommitmentProof(w.ctx, uint64(s), w.ns(s, b), w.coms[[2]int{s, b}])
}

func (w *world) applyCP(t []string, s, b int, v *cpPres) error {
	os_, ob := s, otherBlob(b)
	oth := func() *nodeblob.CommitmentProof {
		p, err := w.honestCP(os_, ob)
		if err != nil {
			panic(err)
		}
		return cloneCP(p)
	}
	p := v.proof
	switch t[0] {
	case "subtreeRoots":
		p.SubtreeRoots = seqOp(t[1], p.SubtreeRoots, oth().SubtreeRoots, []byte{})
	case "subtreeRootProofs":
		p.SubtreeRootProofs = seqOp(t[1], p.SubtreeRootProofs, oth().SubtreeRootProofs, nil)
	case "subtreeRootProof0":
		if len(p.SubtreeRootProofs) > 0 && p.SubtreeRootProofs[0] != nil {
			q, err := nmtOp(t[1], p.SubtreeRootProofs[0], w.rng)
			if err != nil {
				return err
			}
			p.SubtreeRootProofs[0] = q
		}
	case "rowRoots":
		p.RowProof.RowRoots = seqOp(t[1], p.RowProof.RowRoots, oth().RowProof.RowRoots, []byte{})
	case "rowProofs":
		p.RowProof.Proofs = seqOp(t[1], p.RowProof.Proofs, oth().RowProof.Proofs, nil)
	case "rowProof0":
		if len(p.RowProof.Proofs) > 0 && p.RowProof.Proofs[0] != nil {
			mp := p.RowProof.Proofs[0]
			if err := mpOp(t[1], &mp.Total, &mp.Index, &mp.Aunts, w.rng); err != nil {
				return err
			}
		}
	case "rows":
		switch t[1] {
		case "start+1":
			p.RowProof.StartRow++
		case "end+1":
			p.RowProof.EndRow++
		case "end-1":
			if p.RowProof.EndRow > 0 {
				p.RowProof.EndRow--
			}
		}
	case "strip":
		// the vacuous proof: nothing left to check, inverted row range (uint32 row count 0), commitment of nothing
		p.SubtreeRoots = p.SubtreeRoots[:0:0]
		p.SubtreeRootProofs = p.SubtreeRootProofs[:0:0]
		p.RowProof.RowRoots = p.RowProof.RowRoots[:0:0]
		p.RowProof.Proofs = p.RowProof.Proofs[:0:0]
		p.RowProof.StartRow, p.RowProof.EndRow = 1, 0
		v.com = gsmerkle.HashFromByteSlices(nil)
	case "cprows":
		// row range rewritten to wrap modulo 2^32 (only for proofs over >= 2 rows, as in the model)
		if n := len(p.RowProof.RowRoots); n >= 2 {
			p.RowProof.StartRow = uint32(int64(1 - n))
			p.RowProof.EndRow = 0
		}
	case "ns":
		p.NamespaceID = otherNsID(w, s, p.NamespaceID)
	case "com":
		switch t[1] {
		case "other":
			v.com = w.coms[[2]int{s, ob}]
		case "otherSq":
			v.com = w.coms[[2]int{otherSq(s), b}]
		case "empty":
			v.com = []byte{}
		}
	case "root":
		if t[1] == "other" {
			v.root = w.root(otherSq(s))
		} else {
			v.root = []byte{}
		}
	case "proof":
		if t[1] == "other" {
			v.proof = oth()
		} else {
			q, err := w.honestCP(otherSq(s), b)
			if err != nil {
				return err
			}
			v.proof = cloneCP(q)
		}
	case "forge":
		// forge the digest of the first subtree root of the first / middle / last row of the blob (the node
		// keeps its namespace range: still a well-formed NMT node) and present the commitment recomputed
		// over the forged list
		hp, err := w.honestCP(s, b)
		if err != nil {
			return err
		}
		n := len(hp.SubtreeRootProofs)
		row := 0
		switch t[1] {
		case "middle":
			row = n / 2
		case "last":
			row = n - 1
		}
		total := 0
		for _, sp := range hp.SubtreeRootProofs {
			total += sp.End() - sp.Start()
		}
		stw, err := inclusion.SubTreeWidth(total, appconsts.SubtreeRootThreshold)
		if err != nil {
			return err
		}
		idx := 0
		for j := 0; j < row; j++ {
			rg, err := nmt.ToLeafRanges(hp.SubtreeRootProofs[j].Start(), hp.SubtreeRootProofs[j].End(), stw)
			if err != nil {
				return err
			}
			idx += len(rg)
		}
		if idx < len(p.SubtreeRoots) {
			r := cpBytes(p.SubtreeRoots[idx])
			if len(r) >= 32 {
				r[len(r)-1] ^= 0x01
				r[len(r)-17] ^= 0x80
			} else {
				r = junkNode(2*libshare.NamespaceSize+32, w.rng)
			}
			p.SubtreeRoots[idx] = r
		}
		v.com = gsmerkle.HashFromByteSlices(p.SubtreeRoots)
	default:
		panic("unknown cp manipulation " + t[0])
	}
	return nil
}

// cpTruth: the data root is a world square's and that square has a blob with this commitment.
func (w *world) cpTruth(v *cpPres) bool {
	for s, blk := range w.blocks {
		if !bytes.Equal(v.root, blk.Roots.Hash()) {
			continue
		}
		for b := range blk.Blobs {
			if bytes.Equal(v.com, w.coms[[2]int{s, b + 1}]) {
				return true
			}
		}
	}
	return false
}

// ---------------------------------------------------------------------------------------------- range results

type rrPres struct {
	res  *nodeshare.GetRangeResult
	root []byte
}

func (w *world) honestRR(s, from, to int) (*nodeshare.GetRangeResult, error) {
	return w.shr.GetRange(w.ctx, uint64(s), from, to)
}

func rrOther(o []int) []int {
	switch {
	case o[0] == 1 && o[1] == 1 && o[2] == 10:
		return []int{1, 5, 7}
	case o[0] == 1:
		return []int{1, 1, 10}
	default:
		return []int{2, 2, 4}
	}
}

func toHex(b [][]byte) []tmbytes.HexBytes {
	o := make([]tmbytes.HexBytes, len(b))
	for i := range b {
		o[i] = b[i]
	}
	return o
}

func (w *world) applyRR(t []string, o []int, v *rrPres, othRes *nodeshare.GetRangeResult) error {
	oth := cloneRR(othRes)
	r := v.res
	switch {
	case t[0] == "proof" && t[1] == "nil":
		r.Proof = nil
		return nil
	case t[0] == "root":
		if t[1] == "other" {
			v.root = w.root(otherSq(o[0]))
		} else {
			v.root = []byte{}
		}
		return nil
	case t[0] == "res":
		v.res = oth
		return nil
	case t[0] == "shares":
		r.Shares = seqOp(t[1], r.Shares, oth.Shares, libshare.Share{})
		return nil
	}
	if r.Proof == nil {
		return nil
	}
	p := r.Proof
	switch t[0] {
	case "data":
		if t[1] == "empty" {
			p.Data = nil
		} else {
			p.Data = seqOp(t[1], p.Data, oth.Proof.Data, []byte{})
		}
	case "shareProofs":
		p.ShareProofs = seqOp(t[1], p.ShareProofs, oth.Proof.ShareProofs, nil)
	case "shareProof0":
		if len(p.ShareProofs) > 0 && p.ShareProofs[0] != nil {
			return pbNmtOp(t[1], p.ShareProofs[0], w.rng)
		}
	case "rowRoots":
		p.RowProof.RowRoots = seqOp(t[1], p.RowProof.RowRoots, oth.Proof.RowProof.RowRoots, tmbytes.HexBytes{})
	case "rowProofs":
		p.RowProof.Proofs = seqOp(t[1], p.RowProof.Proofs, oth.Proof.RowProof.Proofs, nil)
	case "rowProof0":
		if len(p.RowProof.Proofs) > 0 && p.RowProof.Proofs[0] != nil {
			mp := p.RowProof.Proofs[0]
			return mpOp(t[1], &mp.Total, &mp.Index, &mp.Aunts, w.rng)
		}
	case "rows":
		switch t[1] {
		case "start+1":
			p.RowProof.StartRow++
		case "end+1":
			p.RowProof.EndRow++
		case "end-1":
			if p.RowProof.EndRow > 0 {
				p.RowProof.EndRow--
			}
		}
	case "ns":
		p.NamespaceID = otherNsID(w, o[0], p.NamespaceID)
	default:
		panic("unknown rr manipulation " + t[0])
	}
	return nil
}

// rrTruth: the shares are the shares of a world square at the coordinates the proofs BIND: the Merkle
// index of every row proof (the row) and the range of every share proof (the columns).
func (w *world) rrTruth(v *rrPres) (truth bool, startRowLie bool) {
	r := v.res
	if r == nil || r.Proof == nil {
		return false, false
	}
	p := r.Proof
	n := len(p.ShareProofs)
	if n == 0 || n != len(p.RowProof.Proofs) {
		return false, false
	}
	for _, blk := range w.blocks {
		if !bytes.Equal(v.root, blk.Roots.Hash()) {
			continue
		}
		var want []libshare.Share
		ok := true
		for k := 0; k < n && ok; k++ {
			sp, mp := p.ShareProofs[k], p.RowProof.Proofs[k]
			if sp == nil || mp == nil || mp.Index < 0 || mp.Index >= int64(blk.W) || sp.Start < 0 || sp.Start >= sp.End || int(sp.End) > blk.W {
				ok = false
				break
			}
			want = append(want, blk.ODS[int(mp.Index)*blk.W+int(sp.Start):int(mp.Index)*blk.W+int(sp.End)]...)
		}
		if !ok || len(want) != len(r.Shares) {
			return false, false
		}
		for i := range want {
			if !bytes.Equal(want[i].ToBytes(), r.Shares[i].ToBytes()) {
				return false, false
			}
		}
		lie := int64(p.RowProof.StartRow) != p.RowProof.Proofs[0].Index || int64(p.RowProof.EndRow) != p.RowProof.Proofs[n-1].Index
		return true, lie
	}
	return false, false
}

// ---------------------------------------------------------------------------------------------- tuple proofs

type tpPres struct {
	proof *blobstream.DataRootTupleInclusionProof
	root  []byte
	leaf  []byte
}

// the client's side of the blobstream contract: abi.encode(height, dataRoot)
func encodeTuple(height uint64, dataRoot []byte) []byte {
	b := make([]byte, 64)
	binary.BigEndian.PutUint64(b[24:32], height)
	copy(b[32:], dataRoot)
	return b
}

func (w *world) tuple(h uint64) []byte { return encodeTuple(h, w.hdrs[h].DataHash) }

func otherHeight(o []int) int {
	if o[0]+1 < o[2] {
		return o[0] + 1
	}
	return o[1]
}

func (w *world) applyTP(t []string, o []int, v *tpPres) error {
	switch t[0] + "." + t[1] {
	case "index.+1":
		v.proof.Index++
	case "index.-1":
		v.proof.Index--
	case "total.+1":
		v.proof.Total++
	case "total.-1":
		v.proof.Total--
	case "aunts.drop":
		if len(v.proof.Aunts) == 0 {
			return errSkip
		}
		v.proof.Aunts = v.proof.Aunts[:len(v.proof.Aunts)-1]
	case "aunts.add":
		v.proof.Aunts = append(v.proof.Aunts, junkNode(32, w.rng))
	case "leaf.otherHeight":
		v.leaf = w.tuple(uint64(otherHeight(o)))
	case "leaf.outside":
		h := uint64(o[2])
		dr := junkNode(32, w.rng)
		if eh, ok := w.hdrs[h]; ok {
			dr = eh.DataHash
		}
		v.leaf = encodeTuple(h, dr)
	case "leaf.wrongRoot":
		v.leaf = encodeTuple(uint64(o[0]), junkNode(32, w.rng))
	case "leaf.empty":
		v.leaf = []byte{}
	case "root.otherRange":
		a, b := uint64(o[1]), uint64(o[2])
		if b <= w.head {
			b++
		} else {
			b--
		}
		r, err := w.bs.GetDataRootTupleRoot(w.ctx, a, b)
		if err != nil {
			return fmt.Errorf("other range root: %w", err)
		}
		v.root = r
	case "root.empty":
		v.root = []byte{}
	case "proof.otherHeight":
		p, err := w.bs.GetDataRootTupleInclusionProof(w.ctx, uint64(otherHeight(o)), uint64(o[1]), uint64(o[2]))
		if err != nil {
			return err
		}
		q := *p
		q.Aunts = cpBytess(p.Aunts)
		v.proof = &q
	default:
		panic("unknown tp manipulation " + t[0] + "." + t[1])
	}
	return nil
}

func (w *world) tpTruth(v *tpPres) bool {
	for a := uint64(1); a <= w.head; a++ {
		for b := a + 1; b <= w.head+1; b++ {
			r, err := w.bs.GetDataRootTupleRoot(w.ctx, a, b)
			if err != nil || !bytes.Equal(r, v.root) {
				continue
			}
			for h := a; h < b; h++ {
				if bytes.Equal(v.leaf, w.tuple(h)) {
					return true
				}
			}
		}
	}
	return false
}

// ---------------------------------------------------------------------------------------------- Included

type incPres struct {
	s     int
	ns    libshare.Namespace
	proof *nodeblob.Proof
	com   []byte
}

func (w *world) ownProof(s, b int) (nodeblob.Proof, error) {
	p, err := w.svc.GetProof(w.ctx, uint64(s), w.ns(s, b), w.coms[[2]int{s, b}])
	if err != nil {
		return nil, err
	}
	return cloneBlobProof(*p), nil
}

func (w *world) applyINC(t []string, s, b int, v *incPres) error {
	oth, err := w.ownProof(s, otherBlob(b))
	if err != nil {
		return err
	}
	p := *v.proof
	switch t[0] {
	case "proof":
		switch t[1] {
		case "other":
			p = oth
		case "empty":
			p = nodeblob.Proof{}
		default:
			p = seqOp(t[1], p, oth, nil)
		}
	case "proof0":
		if len(p) > 0 && p[0] != nil {
			q, err := nmtOp(t[1], p[0], w.rng)
			if err != nil {
				return err
			}
			p[0] = q
		}
	case "com":
		if t[1] == "other" {
			v.com = w.coms[[2]int{s, otherBlob(b)}]
		} else {
			v.com = junkNode(32, w.rng)
		}
	case "ns":
		if v.ns.Equals(blobsq.Namespace(2)) {
			v.ns = blobsq.Namespace(4)
		} else {
			v.ns = blobsq.Namespace(2)
		}
	default:
		panic("unknown inc manipulation " + t[0])
	}
	v.proof = &p
	return nil
}

func nmtEqual(a, b *nmt.Proof) bool {
	if a == nil || b == nil {
		return a == b
	}
	if a.Start() != b.Start() || a.End() != b.End() || !bytes.Equal(a.LeafHash(), b.LeafHash()) || len(a.Nodes()) != len(b.Nodes()) {
		return false
	}
	for i := range a.Nodes() {
		if !bytes.Equal(a.Nodes()[i], b.Nodes()[i]) {
			return false
		}
	}
	return true
}

// incTruth: the block has the blob under that namespace and the supplied proof is the node's own.
func (w *world) incTruth(v *incPres) bool {
	blk := w.blocks[v.s]
	for b := range blk.Blobs {
		if blk.Blobs[b].Namespace().Equals(v.ns) && bytes.Equal(v.com, w.coms[[2]int{v.s, b + 1}]) {
			own, err := w.ownProof(v.s, b+1)
			if err != nil || v.proof == nil || len(own) != len(*v.proof) {
				return false
			}
			for i := range own {
				if !nmtEqual(own[i], (*v.proof)[i]) {
					return false
				}
			}
			return true
		}
	}
	return false
}

// ---------------------------------------------------------------------------------------------- running a case

type result struct {
	outcome string // ok | err | panic | true | false | skip
	truth   bool
	detail  string
	lie     bool
}

func guard(f func() error) (outcome, detail string) {
	var err error
	if p, v := vh.Recover(func() { err = f() }); p {
		return "panic", v
	}
	if err != nil {
		return "err", err.Error()
	}
	return "ok", ""
}

func (w *world) run(c Case, sOff int) result {
	switch c.Kind {
	case "cp":
		s, b := c.Obj[0]+sOff, c.Obj[1]
		hp, err := w.honestCP(s, b)
		if err != nil {
			return result{outcome: "err", detail: "producer: " + err.Error(), truth: true}
		}
		v := &cpPres{proof: cloneCP(hp), com: w.coms[[2]int{s, b}], root: w.root(s)}
		for _, t := range c.Tampers {
			if err := w.applyCP(t, s, b, v); err != nil {
				return result{outcome: "skip", detail: err.Error()}
			}
		}
		out, det := guard(func() error { return v.proof.Verify(v.root, v.com) })
		return result{outcome: out, detail: det, truth: w.cpTruth(v)}
	case "rr":
		o := append([]int(nil), c.Obj...)
		o[0] += sOff
		hr, err := w.honestRR(o[0], o[1], o[2])
		if err != nil {
			return result{outcome: "err", detail: "producer: " + err.Error(), truth: true}
		}
		oo := rrOther(c.Obj)
		othRes, err := w.honestRR(oo[0]+sOff, oo[1], oo[2])
		if err != nil {
			return result{outcome: "skip", detail: "other range: " + err.Error()}
		}
		v := &rrPres{res: cloneRR(hr), root: w.root(o[0])}
		for _, t := range c.Tampers {
			if err := w.applyRR(t, o, v, othRes); err != nil {
				return result{outcome: "skip", detail: err.Error()}
			}
		}
		out, det := guard(func() error { return v.res.Verify(v.root) })
		tr, lie := w.rrTruth(v)
		return result{outcome: out, detail: det, truth: tr, lie: lie}
	case "tp":
		h, a, b := uint64(c.Obj[0]), uint64(c.Obj[1]), uint64(c.Obj[2])
		root, err := w.bs.GetDataRootTupleRoot(w.ctx, a, b)
		if err != nil {
			return result{outcome: "err", detail: "producer(root): " + err.Error(), truth: true}
		}
		p, err := w.bs.GetDataRootTupleInclusionProof(w.ctx, h, a, b)
		if err != nil {
			return result{outcome: "err", detail: "producer(proof): " + err.Error(), truth: true}
		}
		q := *p
		q.Aunts = cpBytess(p.Aunts)
		v := &tpPres{proof: &q, root: root, leaf: w.tuple(h)}
		for _, t := range c.Tampers {
			if err := w.applyTP(t, c.Obj, v); err != nil {
				return result{outcome: "skip", detail: err.Error()}
			}
		}
		out, det := guard(func() error { return (*merkle.Proof)(v.proof).Verify(v.root, v.leaf) })
		return result{outcome: out, detail: det, truth: w.tpTruth(v)}
	case "inc":
		s, b := c.Obj[0]+sOff, c.Obj[1]
		own, err := w.ownProof(s, b)
		if err != nil {
			return result{outcome: "err", detail: "producer: " + err.Error(), truth: true}
		}
		v := &incPres{s: s, ns: w.ns(s, b), proof: &own, com: w.coms[[2]int{s, b}]}
		for _, t := range c.Tampers {
			if err := w.applyINC(t, s, b, v); err != nil {
				return result{outcome: "skip", detail: err.Error()}
			}
		}
		var inc bool
		out, det := guard(func() error {
			var e error
			inc, e = w.svc.Included(w.ctx, uint64(s), v.ns, v.proof, v.com)
			return e
		})
		if out == "ok" {
			out = fmt.Sprint(inc)
		} else if out == "err" && inc {
			det = "(true, " + det + ")"
			w.rep.Count("included_true_with_error", 1) // (true, ErrInvalidProof): not "answers true", see DESIGN.md §11
		}
		return result{outcome: out, detail: det, truth: w.incTruth(v)}
	case "req":
		h, a, b := uint64(c.Obj[0]), uint64(c.Obj[1]), uint64(c.Obj[2])
		var p *blobstream.DataRootTupleInclusionProof
		var root []byte
		out, det := guard(func() error {
			var e error
			p, e = w.bs.GetDataRootTupleInclusionProof(w.ctx, h, a, b)
			if e != nil {
				return e
			}
			root, e = w.bs.GetDataRootTupleRoot(w.ctx, a, b)
			return e
		})
		if out == "ok" {
			if err := (*merkle.Proof)(p).Verify(root, w.tuple(h)); err != nil {
				return result{outcome: "err", detail: "served proof does not verify: " + err.Error(), truth: c.Truth}
			}
		}
		return result{outcome: out, detail: det, truth: c.Truth}
	}
	panic("unknown kind " + c.Kind)
}

// honestEquivalent: every manipulation substitutes a WHOLE honest part (proof / commitment / root /
// result / leaf of another object): if the model accepts, the presentation is an honest one.
func honestEquivalent(c Case) bool {
	for _, t := range c.Tampers {
		k := t[0] + "." + t[1]
		switch k {
		case "proof.other", "proof.otherSq", "com.other", "com.otherSq", "root.other", "res.other", "leaf.otherHeight", "proof.otherHeight", "root.otherRange":
		default:
			return false
		}
	}
	return true
}

func (w *world) judge(c Case, r result, fam string) {
	rep := w.rep
	rp := map[string]any{"case": c, "family": fam, "outcome": r.outcome, "detail": r.detail, "truth": r.truth, "seed": vh.Seed()}
	rep.Count("cases_"+fam+"_"+c.Kind, 1)
	if r.outcome == "skip" {
		rep.Count("cases_not_applicable", 1)
		return
	}
	rep.Count("verdict_"+c.Kind+"_"+r.outcome, 1)
	accepted := r.outcome == "ok" || r.outcome == "true"
	first := ""
	if len(c.Tampers) > 0 {
		first = strings.Join(c.Tampers[0], ".")
	}
	switch {
	case r.outcome == "panic":
		sig := fmt.Sprintf("C12/%s/panic/%s", c.Kind, panicSite(r.detail))
		rep.Violate(sig, fmt.Sprintf("%s: the verifier panicked on malformed input: %s", c, firstLine(r.detail)), rp)
	case c.Kind == "req":
		if (r.outcome == "ok") != (c.Verdict == "ok") {
			rep.Violate("C12/tp/request-validation", fmt.Sprintf("%s: request served=%v, expected served=%v (%s)", c, r.outcome == "ok", c.Verdict == "ok", r.detail), rp)
		}
	case len(c.Tampers) == 0 && !accepted:
		rep.Violate(fmt.Sprintf("C12/%s/honest-rejected", c.Kind), fmt.Sprintf("%s: the proof the node produced does not verify: %s %s", c, r.outcome, r.detail), rp)
	case accepted && !r.truth:
		// signature = the single manipulation that is already accepted on its own, if there is one
		// (single-manipulation cases run first), so that one root cause has one signature
		cause := ""
		for _, t := range c.Tampers {
			k := c.Kind + "/" + strings.Join(t, ".")
			if len(c.Tampers) == 1 {
				w.badSingles[k] = true
			}
			if w.badSingles[k] && cause == "" {
				cause = strings.Join(t, ".")
			}
		}
		if cause == "" {
			var ts []string
			for _, t := range c.Tampers {
				ts = append(ts, strings.Join(t, "."))
			}
			cause = strings.Join(ts, "+")
		}
		rep.Violate(fmt.Sprintf("C12/%s/accepted-false-claim/%s", c.Kind, cause), fmt.Sprintf("%s: accepted although the claim is false", c), rp)
	case c.Kind == "inc" && r.truth && r.outcome != "true":
		rep.Violate("C12/inc/own-proof-refused", fmt.Sprintf("%s: blob in block and proof is the node's own, answer %s %s", c, r.outcome, r.detail), rp)
	case !accepted && r.truth && fam == "model" && (c.Verdict == "ok" || c.Verdict == "true") && honestEquivalent(c):
		rep.Violate(fmt.Sprintf("C12/%s/honest-rejected", c.Kind), fmt.Sprintf("%s: an honest presentation (whole parts of another object) is refused: %s", c, r.detail), rp)
	}
	if accepted && r.truth && len(c.Tampers) > 0 {
		rep.Count("accepted_true_claims_after_manipulation", 1)
	}
	if r.lie && accepted {
		rep.Count("rr_accepted_with_unvalidated_startrow_endrow", 1)
	}
	if fam == "model" && c.Kind != "req" {
		mAcc := c.Verdict == "ok" || c.Verdict == "true"
		switch {
		case mAcc == accepted:
			rep.Count("model_verdict_agrees", 1)
		case accepted:
			rep.Count("real_more_lenient_than_model", 1)
			rep.Count("lenient_"+c.Kind+"_"+first, 1)
			if os.Getenv("VERIF_DEBUG") != "" {
				fmt.Println("LENIENT", c.String(), "truth", r.truth)
			}
		default:
			rep.Count("real_stricter_than_model", 1)
			if os.Getenv("VERIF_DEBUG") != "" {
				fmt.Println("STRICTER", c.String(), r.outcome, r.detail)
			}
		}
		if c.Truth != r.truth {
			rep.Count("truth_differs_from_model", 1)
			if os.Getenv("VERIF_DEBUG") != "" {
				fmt.Println("TRUTHDIFF", c.String(), "model", c.Truth, "real", r.truth)
			}
		}
	}
}

func firstLine(s string) string {
	if i := strings.IndexByte(s, '\n'); i >= 0 {
		return s[:i]
	}
	return s
}

// panicSite names the function of celestia-node (or, failing that, the first non-runtime frame) in
// which the panic happened: the structural signature of the finding.
func panicSite(stack string) string {
	lines := strings.Split(stack, "\n")
	first := ""
	for _, l := range lines {
		l = strings.TrimSpace(l)
		if !strings.Contains(l, "(") || strings.HasPrefix(l, "/") || strings.HasPrefix(l, "runtime") || strings.HasPrefix(l, "panic(") ||
			strings.Contains(l, "verifharness") || strings.HasPrefix(l, "goroutine") {
			continue
		}
		fn := l[:strings.LastIndexByte(l, '(')]
		if i := strings.LastIndexByte(fn, '/'); i >= 0 {
			fn = fn[i+1:]
		}
		if first == "" {
			first = fn
		}
		if strings.Contains(l, "celestia-node/") {
			return fn
		}
	}
	if first == "" {
		return "unknown"
	}
	return first
}

// ---------------------------------------------------------------------------------------------- JSON

func garble(b []byte, rng *rand.Rand) []byte {
	o := cpBytes(b)
	n := 1 + rng.Intn(3)
	for i := 0; i < n && len(o) > 0; i++ {
		p := rng.Intn(len(o))
		switch rng.Intn(5) {
		case 0:
			o[p] ^= byte(1 << uint(rng.Intn(8)))
		case 1:
			o = append(o[:p], o[p+1:]...)
		case 2:
			o = append(o[:p], append([]byte{"0123456789abcdefABCDEF\"[]{},:-nul"[rng.Intn(33)]}, o[p:]...)...)
		case 3: // replace a JSON value by null
			if j := bytes.IndexByte(o[p:], ':'); j >= 0 {
				q := p + j + 1
				e := q
				for e < len(o) && o[e] != ',' && o[e] != '}' {
					e++
				}
				o = append(o[:q], append([]byte("null"), o[e:]...)...)
			}
		case 4: // truncate
			o = o[:p]
		}
	}
	return o
}

func (w *world) jsonFamily(n int) {
	rep := w.rep
	type obj struct {
		kind   string
		c      Case
		marsh  func() ([]byte, error)
		verify func(js []byte) (decoded bool, out, det string, truth bool)
	}
	var objs []obj
	for _, s := range []int{1, 2, 3} {
		for b := 1; b <= 3; b++ {
			s, b := s, b
			hp, err := w.honestCP(s, b)
			if err != nil {
				rep.Inconclusivef("json: producer cp: %v", err)
				continue
			}
			objs = append(objs, obj{"cp", Case{Kind: "cp", Obj: []int{s, b}}, func() ([]byte, error) { return json.Marshal(hp) },
				func(js []byte) (bool, string, string, bool) {
					var p nodeblob.CommitmentProof
					var derr error
					if pn, v := vh.Recover(func() { derr = json.Unmarshal(js, &p) }); pn {
						return true, "panic", "json.Unmarshal: " + v, false
					}
					if derr != nil {
						return false, "", "", false
					}
					pres := &cpPres{proof: &p, com: w.coms[[2]int{s, b}], root: w.root(s)}
					out, det := guard(func() error { return p.Verify(pres.root, pres.com) })
					return true, out, det, w.cpTruth(pres)
				}})
			own, err := w.ownProof(s, b)
			if err != nil {
				continue
			}
			objs = append(objs, obj{"inc", Case{Kind: "inc", Obj: []int{s, b}}, func() ([]byte, error) { return json.Marshal(own) },
				func(js []byte) (bool, string, string, bool) {
					var p nodeblob.Proof
					var derr error
					if pn, v := vh.Recover(func() { derr = json.Unmarshal(js, &p) }); pn {
						return true, "panic", "json.Unmarshal: " + v, false
					}
					if derr != nil {
						return false, "", "", false
					}
					pres := &incPres{s: s, ns: w.ns(s, b), proof: &p, com: w.coms[[2]int{s, b}]}
					var inc bool
					out, det := guard(func() error {
						var e error
						inc, e = w.svc.Included(w.ctx, uint64(s), pres.ns, pres.proof, pres.com)
						return e
					})
					if out == "ok" {
						out = fmt.Sprint(inc)
					}
					return true, out, det, w.incTruth(pres)
				}})
		}
	}
	big := w.blocks[3].RealStarts[0]
	for _, o := range [][]int{{1, 1, 10}, {1, 5, 7}, {2, 10, 14}, {3, big + 1, big + 90}} {
		o := o
		hr, err := w.honestRR(o[0], o[1], o[2])
		if err != nil {
			rep.Inconclusivef("json: producer rr %v: %v", o, err)
			continue
		}
		objs = append(objs, obj{"rr", Case{Kind: "rr", Obj: o}, func() ([]byte, error) { return json.Marshal(hr) },
			func(js []byte) (bool, string, string, bool) {
				var r nodeshare.GetRangeResult
				var derr error
				if pn, v := vh.Recover(func() { derr = json.Unmarshal(js, &r) }); pn {
					return true, "panic", "json.Unmarshal: " + v, false
				}
				if derr != nil {
					return false, "", "", false
				}
				pres := &rrPres{res: &r, root: w.root(o[0])}
				out, det := guard(func() error { return r.Verify(pres.root) })
				tr, _ := w.rrTruth(pres)
				return true, out, det, tr
			}})
	}
	for _, o := range [][]int{{2, 1, 5}, {5, 3, 6}} {
		o := o
		h, a, b := uint64(o[0]), uint64(o[1]), uint64(o[2])
		root, err1 := w.bs.GetDataRootTupleRoot(w.ctx, a, b)
		p, err2 := w.bs.GetDataRootTupleInclusionProof(w.ctx, h, a, b)
		if err1 != nil || err2 != nil {
			rep.Inconclusivef("json: producer tp %v: %v %v", o, err1, err2)
			continue
		}
		objs = append(objs, obj{"tp", Case{Kind: "tp", Obj: o}, func() ([]byte, error) { return json.Marshal(p) },
			func(js []byte) (bool, string, string, bool) {
				var q blobstream.DataRootTupleInclusionProof
				var derr error
				if pn, v := vh.Recover(func() { derr = json.Unmarshal(js, &q) }); pn {
					return true, "panic", "json.Unmarshal: " + v, false
				}
				if derr != nil {
					return false, "", "", false
				}
				pres := &tpPres{proof: &q, root: root, leaf: w.tuple(h)}
				out, det := guard(func() error { return (*merkle.Proof)(&q).Verify(pres.root, pres.leaf) })
				return true, out, det, w.tpTruth(pres)
			}})
	}
	for _, o := range objs {
		js, err := o.marsh()
		if err != nil {
			rep.Violate("C12/"+o.kind+"/json-marshal", fmt.Sprintf("%s: cannot marshal the produced proof: %v", o.c, err), nil)
			continue
		}
		dec, out, det, truth := o.verify(js)
		r := result{outcome: out, detail: det, truth: truth}
		if !dec {
			r = result{outcome: "err", detail: "the JSON form of the produced proof does not decode", truth: true}
		}
		w.judge(o.c, r, "json_roundtrip")
		for i := 0; i < n; i++ {
			g := garble(js, w.rng)
			dec, out, det, truth := o.verify(g)
			rep.Count("json_mutations", 1)
			if !dec {
				rep.Count("json_mutations_refused_by_decoder", 1)
				continue
			}
			c := o.c
			c.Tampers = [][]string{{"json", "garble"}}
			if out == "panic" {
				rep.Violate(fmt.Sprintf("C12/%s/panic/json/%s", c.Kind, panicSite(det)),
					fmt.Sprintf("%s: panic on a mutated JSON form: %s", c, firstLine(det)), map[string]any{"case": c, "json": string(g), "seed": vh.Seed()})
				continue
			}
			accepted := out == "ok" || out == "true"
			if accepted && !truth {
				rep.Violate(fmt.Sprintf("C12/%s/accepted-false-claim/json", c.Kind), fmt.Sprintf("%s: a mutated JSON form is accepted although the claim is false", c),
					map[string]any{"case": c, "json": string(g), "seed": vh.Seed()})
			}
			rep.Count("json_mutations_decoded_"+out, 1)
		}
	}
}

// ---------------------------------------------------------------------------------------------- main

func TestDriver(t *testing.T) {
	_ = logging.SetLogLevel("*", "FATAL")
	rep := vh.NewReport()
	defer func() {
		if err := rep.Write(); err != nil {
			t.Fatal(err)
		}
	}()
	ctx, cancel := context.WithTimeout(context.Background(), 40*time.Minute)
	defer cancel()
	w := newWorld(t, rep, ctx)

	// replay of one recorded violation (bin/check C12 --replay <file>)
	if p := os.Getenv("VERIF_REPLAY_CASE"); p != "" {
		var rp struct {
			Case   Case   `json:"case"`
			Family string `json:"family"`
			JSON   string `json:"json"`
		}
		if err := vh.ReadJSON(p, &rp); err != nil {
			t.Fatalf("replay: %v", err)
		}
		if rp.JSON != "" {
			rep.Inconclusivef("replay of a mutated JSON form is not supported; the JSON text is in the replay file")
			return
		}
		off := 0
		if rp.Family == "bigworld" {
			off = 2
		}
		r := w.run(rp.Case, off)
		w.judge(rp.Case, r, "model")
		rep.Set("replay_outcome", r.outcome)
		rep.Set("replay_truth", r.truth)
		rep.Set("replay_detail", firstLine(r.detail))
		return
	}
	var cases []Case
	if p := os.Getenv("VERIF_CASES"); p != "" {
		if err := vh.ReadJSON(p, &cases); err != nil {
			t.Fatalf("cases: %v", err)
		}
	}
	maxCases := vh.EnvInt("VERIF_MAX_CASES", 1<<30)
	// all honest + single-manipulation cases always; pairs in seeded order up to the budget
	var base, pairs []Case
	for _, c := range cases {
		if len(c.Tampers) <= 1 {
			base = append(base, c)
		} else {
			pairs = append(pairs, c)
		}
	}
	w.rng.Shuffle(len(pairs), func(i, j int) { pairs[i], pairs[j] = pairs[j], pairs[i] })
	if len(pairs) > maxCases {
		pairs = pairs[:maxCases]
	}
	start := time.Now()
	for _, c := range append(base, pairs...) {
		w.judge(c, w.run(c, 0), "model")
	}
	// the same families on the world of large blobs (subtree width 2 and 4, widths 16/32)
	for _, c := range base {
		if c.Kind == "cp" || c.Kind == "inc" {
			w.judge(c, w.run(c, 2), "bigworld")
		}
	}
	// seeded ranges of the large world: honest, and one random manipulation judged by the oracle alone
	nRanges := vh.EnvInt("VERIF_RANDOM_RANGES", 40)
	rrT := [][]string{}
	for _, c := range base {
		if c.Kind == "rr" && len(c.Tampers) == 1 {
			rrT = append(rrT, c.Tampers[0])
		}
	}
	for i := 0; i < nRanges; i++ {
		s := 3 + w.rng.Intn(2)
		blk := w.blocks[s]
		b := w.rng.Intn(len(blk.Blobs))
		n := blk.Case.Blobs[b].Len
		from := blk.RealStarts[b] + w.rng.Intn(n)
		to := from + 1 + w.rng.Intn(blk.RealStarts[b]+n-from)
		c := Case{Kind: "rr", Obj: []int{s, from, to}}
		hr, err := w.honestRR(s, from, to)
		if err != nil {
			rep.Violate("C12/rr/producer-error", fmt.Sprintf("GetRange(%d,[%d,%d)) inside one blob failed: %v", s, from, to, err), map[string]any{"case": c})
			continue
		}
		v := &rrPres{res: cloneRR(hr), root: w.root(s)}
		out, det := guard(func() error { return v.res.Verify(v.root) })
		tr, lie := w.rrTruth(v)
		w.judge(c, result{outcome: out, detail: det, truth: tr, lie: lie}, "random_range")
		if len(rrT) > 0 {
			tm := rrT[w.rng.Intn(len(rrT))]
			c.Tampers = [][]string{tm}
			oth, err := w.honestRR(s, blk.RealStarts[0]+1, blk.RealStarts[0]+3)
			if err != nil {
				continue
			}
			v := &rrPres{res: cloneRR(hr), root: w.root(s)}
			if err := w.applyRR(tm, []int{s, from, to}, v, oth); err != nil {
				continue
			}
			out, det := guard(func() error { return v.res.Verify(v.root) })
			tr, lie := w.rrTruth(v)
			w.judge(c, result{outcome: out, detail: det, truth: tr, lie: lie}, "random_range")
		}
	}
	w.jsonFamily(vh.EnvInt("VERIF_JSON_MUTATIONS", 150))
	rep.Set("cases", len(cases))
	rep.Set("cases_run", len(base)+len(pairs))
	rep.Set("wall_s", time.Since(start).Seconds())
	rep.Sample(map[string]any{"world": worldCases(), "head": w.head})
	if len(pairs) > 0 {
		rep.Sample(pairs[0])
	}
}
