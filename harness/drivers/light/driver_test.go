package light

import (
	"encoding/json"
	"fmt"
	"math"
	"math/rand"
	"os"
	"path/filepath"
	"sort"
	"testing"

	"github.com/celestiaorg/celestia-node/share/availability/light"
	"github.com/celestiaorg/celestia-node/share/shwap"

	"verifharness/vh"
)

// ---------------------------------------------------------------------------- monitors (C03)

type heightMon struct {
	drawn      bool
	firstDraw  map[int]bool // the draw made when the block was first checked (current lineage)
	served     map[int]bool // coordinates the stub ever served with a real, verified sample
	seen       map[int]bool // coordinates the availability ever received non-empty
	allNothing bool         // every getter answer since the draw was "nothing at all"
	crashLost  bool         // a crash happened after the draw while nothing of it was on disk
	lastServed map[int]bool // inner answer of the pending getter call (per height: one session)
	enters     int
	answered   int // getter answers received since the draw
}

type monitor struct {
	rep      *vh.Report
	hs       map[int]*heightMon
	scenario func() any // replay object for violations
	afterRst bool
	afterCr  bool
}

func newMonitor(rep *vh.Report) *monitor {
	m := &monitor{rep: rep, hs: map[int]*heightMon{}}
	for _, h := range []int{1, 2} {
		m.hs[h] = &heightMon{firstDraw: map[int]bool{}, served: map[int]bool{}, seen: map[int]bool{}, allNothing: true}
	}
	return m
}

func setOf(xs []int) map[int]bool {
	m := map[int]bool{}
	for _, x := range xs {
		m[x] = true
	}
	return m
}

func keys(m map[int]bool) []int {
	out := make([]int, 0, len(m))
	for k := range m {
		out = append(out, k)
	}
	sort.Ints(out)
	return out
}

func subset(a, b map[int]bool) bool {
	for k := range a {
		if !b[k] {
			return false
		}
	}
	return true
}

func minus(a, b map[int]bool) map[int]bool {
	out := map[int]bool{}
	for k := range a {
		if !b[k] {
			out[k] = true
		}
	}
	return out
}

func (m *monitor) violate(sig, what string) {
	var r any
	if m.scenario != nil {
		r = m.scenario()
	}
	m.rep.Violate(sig, what, r)
}

func (m *monitor) onCall(h *harness, c, ht int) {
	m.rep.Count("ev_call", 1)
	if h.held(ht) {
		m.rep.Count("call_while_height_busy", 1)
	}
}

func (m *monitor) onEnter(h *harness, e event) {
	m.rep.Count("ev_enter", 1)
	st := m.hs[e.height]
	if st == nil {
		m.violate("C03/getter-called-for-empty-or-outside-window-block",
			fmt.Sprintf("getter called for height id %d (empty square or outside the sampling window)", e.height))
		return
	}
	// session mutual exclusion: nobody else may sit in the getter for this height
	for c := 1; c <= nCallers; c++ {
		if c != e.caller && h.call[c].phase == "inGetter" && h.call[c].height == e.height {
			m.violate("C03/session/two-sampling-sessions-for-one-height",
				fmt.Sprintf("callers %d and %d are inside GetSamples for height %d at the same time", c, e.caller, e.height))
		}
	}
	// well-formed request: distinct coordinates inside the extended square
	codes := h.fix.codes(e.coords)
	cs := setOf(codes)
	if len(cs) != len(e.coords) {
		m.violate("C03/draw/duplicate-coordinates", fmt.Sprintf("request %v has duplicates", e.coords))
	}
	for _, co := range e.coords {
		if co.Row < 0 || co.Col < 0 || co.Row >= h.fix.edsW || co.Col >= h.fix.edsW {
			m.violate("C03/draw/out-of-square", fmt.Sprintf("coordinate %v outside the %dx%d square", co, h.fix.edsW, h.fix.edsW))
		}
	}
	st.enters++
	if m.afterRst {
		m.rep.Count("enter_after_restart", 1)
	}
	if m.afterCr {
		m.rep.Count("enter_after_crash", 1)
	}
	if !st.drawn {
		m.firstDraw(h, st, e, cs)
		return
	}
	if st.crashLost {
		// the crash left nothing of this block in the underlying datastore: the new instance draws
		// afresh (candidate #9) -- a new lineage whether or not the sets happen to overlap
		if !subset(cs, st.firstDraw) || !subset(st.firstDraw, cs) {
			m.violate("C03/redraw/after-crash-unflushed-autobatch",
				fmt.Sprintf("after a crash (new instance over the underlying datastore, no Close) the sampling result that sat in the autobatch buffer is gone and new coordinates are drawn: height %d (K=%d, area=%d, cascade=%v): first draw %v, delivered so far %v, now requested %v",
					e.height, h.curK, h.cfg.area(), h.cfg.Cascade, keys(st.firstDraw), keys(st.seen), codes))
		}
		st.drawn = false
		st.seen = map[int]bool{}
		m.firstDraw(h, st, e, cs)
		return
	}
	m.rep.Count("re_request", 1)
	if st.allNothing {
		m.rep.Count("retry_after_only_nothing", 1)
	}
	if !subset(cs, st.firstDraw) {
		// coordinates outside the first draw: the set was drawn again
		what := fmt.Sprintf("height %d (K=%d, area=%d, cascade=%v): first draw %v, delivered so far %v, now requested %v",
			e.height, h.cfg.K, h.cfg.area(), h.cfg.Cascade, keys(st.firstDraw), keys(st.seen), codes)
		concurrent := false
		for c := 1; c <= nCallers; c++ {
			if c != e.caller && h.call[c].phase == "inGetter" && h.call[c].height == e.height {
				concurrent = true
			}
		}
		switch {
		case concurrent:
			m.violate("C03/redraw/concurrent-session-drew-its-own-coordinates",
				"a second sampling session for the same block runs next to the first one and asks for its own coordinates: "+what)
		case st.crashLost:
			m.violate("C03/redraw/after-crash-unflushed-autobatch",
				"after a crash (new instance over the underlying datastore, no Close) the sampling result that sat in the autobatch buffer is gone and new coordinates are drawn: "+what)
		case st.allNothing && st.answered > 0:
			m.violate("C03/redraw/getter-returned-nothing",
				"a retry after the getter returned nothing (len 0, e.g. any error through CascadeGetter) asks for newly drawn coordinates: "+what)
		default:
			m.violate("C03/redraw/other", "a later request asks for coordinates outside the first draw: "+what)
		}
		st.drawn = false
		st.seen = map[int]bool{}
		m.firstDraw(h, st, e, cs)
		return
	}
	if pend := minus(st.firstDraw, st.seen); !subset(pend, cs) {
		m.violate("C03/pending/undelivered-coordinate-not-re-requested",
			fmt.Sprintf("height %d: coordinates %v of the first draw were never delivered but are no longer requested (request %v, first draw %v, delivered %v)",
				e.height, keys(minus(pend, cs)), codes, keys(st.firstDraw), keys(st.seen)))
	}
	for k := range cs {
		if st.seen[k] {
			m.rep.Count("re_requested_already_delivered", 1)
			break
		}
	}
}

func (m *monitor) firstDraw(h *harness, st *heightMon, e event, cs map[int]bool) {
	st.drawn, st.firstDraw, st.allNothing, st.crashLost, st.answered = true, cs, true, false, 0
	m.rep.Count("first_draws", 1)
	if len(cs) != h.need() {
		m.violate("C03/draw/wrong-sample-count",
			fmt.Sprintf("first request for height %d has %d coordinates, want min(K=%d, area=%d)", e.height, len(cs), h.curK, h.cfg.area()))
	}
	if h.fix.edsW >= 4 {
		for _, co := range e.coords {
			q := 0
			if co.Row >= h.fix.odsW {
				q += 2
			}
			if co.Col >= h.fix.odsW {
				q++
			}
			m.rep.Count(fmt.Sprintf("draw_quadrant_%d", q), 1)
		}
	}
}

func (m *monitor) onRet(h *harness, c, ht int, served []shwap.SampleCoords, o outcome) {
	m.rep.Count("ev_ret", 1)
	m.rep.Count("ret_kind_"+o.Kind, 1)
	if o.Len0 {
		m.rep.Count("ret_len0", 1)
	} else if len(served) > 0 && len(served) < len(h.call[c].coords) {
		m.rep.Count("ret_partial", 1)
	} else if len(served) == 0 {
		m.rep.Count("ret_all_empty", 1)
	} else {
		m.rep.Count("ret_all_served", 1)
	}
	if h.call[c].cancelled {
		m.rep.Count("ret_with_cancelled_ctx", 1)
	}
	if st := m.hs[ht]; st != nil {
		st.lastServed = setOf(h.fix.codes(served))
		for k := range st.lastServed {
			st.served[k] = true
		}
	}
}

func (m *monitor) onSeen(h *harness, e event) {
	m.rep.Count("ev_seen", 1)
	st := m.hs[e.height]
	if st == nil {
		return
	}
	ne := setOf(h.fix.codes(e.nonEmpty))
	if !subset(ne, st.lastServed) {
		h.broken = fmt.Sprintf("the wired getter delivered samples %v the stub did not serve (%v)", keys(ne), keys(st.lastServed))
	}
	st.answered++
	if e.n > 0 {
		st.allNothing = false
	} else {
		m.rep.Count("seen_nothing", 1)
	}
	for k := range ne {
		st.seen[k] = true
	}
}

func (m *monitor) onReturn(h *harness, e event) {
	m.rep.Count("ev_return", 1)
	v := verdict(e.err)
	m.rep.Count("verdict_"+firstWord(v), 1)
	if len(v) > 5 && v[:5] == "other" {
		if len(v) > 12 && v[7:12] == "PANIC" {
			m.violate("C03/panic", "SharesAvailable panicked: "+v)
		} else {
			h.broken = "SharesAvailable returned an error the model does not know: " + v
		}
		return
	}
	if h.call[e.caller].cancelled && h.call[e.caller].phase == "running" && v == "cancelled" {
		m.rep.Count("cancelled_call_returned_cancelled", 1)
	}
	st := m.hs[e.height]
	if st == nil || v != "ok" {
		return
	}
	m.rep.Count("available_verdicts", 1)
	// AvailableSound
	miss := minus(st.firstDraw, st.served)
	if !st.drawn || len(st.firstDraw) < h.need() || len(miss) > 0 {
		m.violate("C03/sound/available-without-full-sample-set",
			fmt.Sprintf("SharesAvailable returned nil for height %d (sample amount of the running instance %d, area %d, cascade=%v): at least min(amount, area) distinct coordinates must have been served with a sample; coordinates %v of the draw %v were never served (served: %v)",
				e.height, h.curK, h.cfg.area(), h.cfg.Cascade, keys(miss), keys(st.firstDraw), keys(st.served)))
	}
}

func firstWord(s string) string {
	for i, r := range s {
		if r == ':' || r == ' ' {
			return s[:i]
		}
	}
	return s
}

// onDisk checks the persisted sampling results (what the underlying datastore holds after a
// Close, or at the moment of a crash).
func (m *monitor) onDisk(h *harness, ev string, d []diskRes) {
	m.rep.Count("ev_"+ev, 1)
	for ht, st := range m.hs {
		r := d[ht-1]
		if ev == "crash" {
			if st.drawn && !r.Set {
				st.crashLost = true
				m.rep.Count("crash_lost_unflushed_result", 1)
			}
		}
		if !r.Set || !st.drawn {
			continue
		}
		m.rep.Count("persisted_results_checked", 1)
		av, rem := setOf(r.Avail), setOf(r.Rem)
		union := map[int]bool{}
		for k := range av {
			union[k] = true
			if rem[k] {
				m.violate("C03/persisted/coordinate-both-available-and-remaining", fmt.Sprintf("height %d: %v", ht, r))
			}
		}
		for k := range rem {
			union[k] = true
		}
		if !subset(union, st.firstDraw) || !subset(st.firstDraw, union) {
			m.violate("C03/persisted/not-the-first-draw",
				fmt.Sprintf("height %d: persisted available %v + remaining %v differ from the first draw %v", ht, r.Avail, r.Rem, keys(st.firstDraw)))
		}
		if !subset(av, st.seen) {
			m.violate("C03/promotion/persisted-available-never-delivered",
				fmt.Sprintf("height %d: persisted as available %v, but only %v were ever delivered as non-empty samples", ht, r.Avail, keys(st.seen)))
		}
		if pend := minus(st.firstDraw, st.seen); !subset(pend, rem) {
			m.violate("C03/pending/persisted-result-dropped-undelivered-coordinate",
				fmt.Sprintf("height %d: undelivered coordinates %v are not in the persisted remaining set %v", ht, keys(pend), r.Rem))
		}
	}
	if ev == "restart" {
		m.afterRst = true
	}
	if ev == "crash" {
		m.afterCr = true
	}
}

// ---------------------------------------------------------------------------- scripts

type step struct {
	A      string `json:"a"`
	C      int    `json:"c,omitempty"`
	H      int    `json:"h,omitempty"`
	Served []int  `json:"served,omitempty"`
	Len0   bool   `json:"len0,omitempty"`
	Kind   string `json:"kind,omitempty"`
	K      int    `json:"k,omitempty"` // restart / crash: sample amount of the new instance (0 = unchanged)
}

type script struct {
	Name    string `json:"name"`
	Class   string `json:"class"`   // tlc | cex_orig | cex_crash | seeded
	Cascade *bool  `json:"cascade"` // counterexamples: the getter wiring the model behaviour used
	Steps   []step `json:"steps"`
}

func (h *harness) apply(s step) bool {
	switch s.A {
	case "call":
		if s.C < 1 || s.C > nCallers {
			return false
		}
		return h.doCall(s.C, s.H)
	case "ret":
		if s.C < 1 || s.C > nCallers {
			return false
		}
		k := s.Kind
		if k == "" {
			k = "none"
		}
		return h.doRet(s.C, outcome{Served: s.Served, Len0: s.Len0, Kind: k})
	case "cancel":
		if s.C < 1 || s.C > nCallers {
			return false
		}
		return h.doCancel(s.C)
	case "flush":
		return h.doFlush()
	case "restart":
		return h.doRestart(s.K)
	case "crash":
		return h.doCrash(s.K)
	case "plant":
		return h.doPlant(s.H, s.Kind)
	}
	return false
}

func randOutcome(r *rand.Rand, n int, generous bool) outcome {
	kinds := []string{"none", "none", "none", "error", "deadline", "cancelled"}
	o := outcome{Kind: kinds[r.Intn(len(kinds))]}
	p := r.Float64()
	switch {
	case generous || p < 0.30: // everything
		for i := 0; i < n; i++ {
			o.Served = append(o.Served, i)
		}
		if generous {
			o.Kind = "none"
		}
	case p < 0.50: // nothing at all
		o.Len0 = true
		if r.Intn(3) > 0 && o.Kind == "none" {
			o.Kind = "error"
		}
	case p < 0.60: // right length, all empty
	default: // a random subset
		for i := 0; i < n; i++ {
			if r.Intn(2) == 0 {
				o.Served = append(o.Served, i)
			}
		}
	}
	return o
}

// seededStep picks a random enabled stimulus for the current real state.
func (h *harness) seededStep(r *rand.Rand) step {
	type cand struct {
		w int
		s step
	}
	var cs []cand
	for c := 1; c <= nCallers; c++ {
		st := h.call[c]
		switch st.phase {
		case "idle":
			for _, ht := range []int{1, 1, 1, 2, 2, hEmpty, hOutside} {
				w := 3
				if ht > 2 {
					w = 1
				}
				cs = append(cs, cand{w, step{A: "call", C: c, H: ht}})
			}
		case "inGetter":
			o := randOutcome(r, len(st.coords), false)
			cs = append(cs, cand{30, step{A: "ret", C: c, Served: o.Served, Len0: o.Len0, Kind: o.Kind}})
			if !st.cancelled {
				cs = append(cs, cand{4, step{A: "cancel", C: c}})
			}
		case "running":
			if !st.cancelled {
				cs = append(cs, cand{8, step{A: "cancel", C: c}})
			}
		}
	}
	cs = append(cs, cand{5, step{A: "flush"}})
	if h.quiet() {
		cs = append(cs, cand{10, step{A: "restart"}})
		ks := []int{1, 2, 3, 5}
		if h.cfg.OdsW == 2 {
			ks = []int{2, 5, 16}
		}
		cs = append(cs, cand{3, step{A: "restart", K: ks[r.Intn(len(ks))]}})
	}
	cs = append(cs, cand{5, step{A: "crash"}})
	tot := 0
	for _, c := range cs {
		tot += c.w
	}
	x := r.Intn(tot)
	for _, c := range cs {
		if x < c.w {
			return c.s
		}
		x -= c.w
	}
	return cs[0].s
}

// reconfigured: a block is sampled (completely / partly / not at all) by an instance with one
// sample amount, then the node restarts (or crashes after a Close) with another amount over the
// same datastore and is asked again; and records without coordinates planted under a block's key.
func reconfigured() []struct {
	cfg config
	sc  script
} {
	var out []struct {
		cfg config
		sc  script
	}
	call := func(c, h int) step { return step{A: "call", C: c, H: h} }
	all := []int{0, 1, 2, 3, 4, 5, 6, 7, 8, 9, 10, 11, 12, 13, 14, 15}
	ret := func(c int, served []int) step { return step{A: "ret", C: c, Served: served, Kind: "none"} }
	type kk struct{ odsW, from, to int }
	for _, x := range []kk{{1, 2, 3}, {1, 3, 2}, {1, 2, 5}, {1, 5, 2}, {1, 1, 3}, {2, 2, 5}, {2, 5, 2}, {2, 5, 16}, {2, 16, 5}, {2, 2, 16}} {
		for _, casc := range []bool{false, true} {
			cfg := config{OdsW: x.odsW, K: x.from, Cascade: casc}
			add := func(name string, st ...step) {
				out = append(out, struct {
					cfg config
					sc  script
				}{cfg, script{Name: fmt.Sprintf("reconf-%d-to-%d-%s", x.from, x.to, name), Class: "reconfigured", Steps: st}})
			}
			add("complete", call(1, 1), ret(1, all), step{A: "restart", K: x.to}, call(1, 1), call(2, 1), ret(1, all), ret(2, all))
			add("partial", call(1, 1), ret(1, []int{0}), step{A: "restart", K: x.to}, call(2, 1), ret(2, all), call(1, 1), ret(1, all))
			add("complete-crash", call(1, 1), ret(1, all), call(2, 2), ret(2, all), step{A: "flush"}, step{A: "crash", K: x.to},
				call(1, 1), call(2, 2), ret(1, all), ret(2, all))
			add("back-again", call(1, 2), ret(1, all), step{A: "restart", K: x.to}, call(1, 2), ret(1, all),
				step{A: "restart", K: x.from}, call(1, 2), ret(1, all))
		}
	}
	kinds := make([]string, 0, len(plantKinds))
	for k := range plantKinds {
		kinds = append(kinds, k)
	}
	sort.Strings(kinds)
	for i, kind := range kinds {
		for _, cfg := range []config{{OdsW: 1, K: 2, Cascade: i%2 == 0}, {OdsW: 2, K: 5, Cascade: i%2 == 1}, {OdsW: 2, K: 16}} {
			h := 1 + i%2
			out = append(out, struct {
				cfg config
				sc  script
			}{cfg, script{Name: "planted-" + kind, Class: "planted", Steps: []step{
				{A: "plant", H: h, Kind: kind}, call(1, h), ret(1, all), call(2, 3-h), ret(2, all), call(1, h), ret(1, all),
				{A: "restart"}, call(2, h), ret(2, all)}}})
		}
	}
	return out
}

// directed: three calls for one block with the middle one cancelled while it waits.
func directed() []script {
	call := func(c, h int) step { return step{A: "call", C: c, H: h} }
	cancel := func(c int) step { return step{A: "cancel", C: c} }
	ret := func(c int, served []int, kind string) step { return step{A: "ret", C: c, Served: served, Kind: kind} }
	nothing := func(c int) step { return step{A: "ret", C: c, Len0: true, Kind: "error"} }
	var out []script
	add := func(name string, st ...step) {
		out = append(out, script{Name: "directed-" + name, Class: "directed", Steps: st})
	}
	for _, h := range []int{1, 2} {
		n := fmt.Sprintf("h%d-", h)
		// C arrives after B gave up
		add(n+"late-partial", call(1, h), call(2, h), cancel(2), call(3, h), ret(1, []int{0}, "none"), ret(3, []int{0, 1, 2, 3, 4}, "none"))
		add(n+"late-nothing", call(1, h), call(2, h), cancel(2), call(3, h), nothing(1), ret(3, []int{0}, "none"))
		add(n+"late-c-first", call(1, h), call(2, h), cancel(2), call(3, h), ret(3, []int{0, 1}, "none"), ret(1, []int{2, 3, 4}, "error"))
		// C queues up before B gives up
		add(n+"early-partial", call(1, h), call(2, h), call(3, h), cancel(2), ret(1, []int{1}, "none"), ret(3, []int{0, 1, 2, 3, 4}, "none"))
		add(n+"early-nothing", call(1, h), call(2, h), call(3, h), cancel(2), nothing(1), ret(3, []int{0, 1, 2, 3, 4}, "deadline"))
		// the waiter comes back itself
		add(n+"waiter-returns", call(1, h), call(2, h), cancel(2), call(2, h), ret(1, []int{0, 1}, "cancelled"), ret(2, []int{0, 1, 2, 3, 4}, "none"))
		// the holder is on its second attempt (a stored result exists)
		add(n+"second-attempt", call(1, h), ret(1, []int{0}, "none"), call(1, h), call(2, h), cancel(2), call(3, h),
			ret(1, []int{0}, "none"), ret(3, []int{0, 1, 2, 3, 4}, "none"))
	}
	// two busy heights, the waiter of one of them gives up
	add("two-heights", call(1, 1), call(2, 2), call(3, 1), cancel(3), call(3, 1), ret(2, []int{0, 1, 2, 3, 4}, "none"),
		call(2, 1), ret(1, []int{0}, "none"))
	add("two-heights-b", call(1, 1), call(2, 2), call(3, 2), cancel(3), call(3, 2), nothing(2), ret(1, []int{0, 1, 2, 3, 4}, "none"))
	return out
}

// ---------------------------------------------------------------------------- scenario runner

type traceFile struct {
	Path      string `json:"path"`
	OdsW      int    `json:"odsW"`
	Area      int    `json:"area"`
	K         int    `json:"k"`
	Scenarios int    `json:"scenarios"`
	Lines     int    `json:"lines"`
	f         *os.File
}

type runner struct {
	rep   *vh.Report
	fix   map[int]*fixture
	files map[string]*traceFile
	rng   *rand.Rand
	n     int
}

func (r *runner) file(cfg config) *traceFile {
	key := fmt.Sprintf("A%d_K%d", cfg.area(), cfg.K)
	tf := r.files[key]
	if tf == nil {
		p := filepath.Join(vh.WorkDir(), "light_trace_"+key+".ndjson")
		f, err := os.Create(p)
		if err != nil {
			panic(err)
		}
		tf = &traceFile{Path: p, OdsW: cfg.OdsW, Area: cfg.area(), K: cfg.K, f: f}
		r.files[key] = tf
	}
	return tf
}

// run executes one scenario: the given script (steps that do not apply to the real state are
// skipped), then seededExtra random stimuli, then lets every call finish.
func (r *runner) run(cfg config, sc script, seededExtra int) {
	r.n++
	mon := newMonitor(r.rep)
	h := newHarness(cfg, r.fix[cfg.OdsW], mon)
	var applied []step
	mon.scenario = func() any {
		return map[string]any{"driver": "light", "config": cfg, "script": sc.Name, "class": sc.Class,
			"steps_applied": applied, "observed": h.trace}
	}
	h.emit("reset", "scn", r.n, "name", sc.Name, "casc", cfg.Cascade)
	skipped := 0
	for _, s := range sc.Steps {
		if h.broken != "" {
			break
		}
		if h.apply(s) {
			applied = append(applied, s)
		} else {
			skipped++
		}
	}
	for i := 0; i < seededExtra && h.broken == ""; i++ {
		s := h.seededStep(r.rng)
		if h.apply(s) {
			applied = append(applied, s)
		}
	}
	if h.broken == "" {
		h.finish(func(n int) outcome { return randOutcome(r.rng, n, r.rng.Intn(3) > 0) })
	}
	if h.broken == "" {
		h.drain()
	}
	r.rep.Count("scenarios", 1)
	r.rep.Count("scenarios_"+sc.Class, 1)
	r.rep.Count("steps_applied", int64(len(applied)))
	r.rep.Count("steps_applied_"+sc.Class, int64(len(applied)))
	r.rep.Count("steps_skipped", int64(skipped))
	if h.broken != "" {
		r.rep.Inconclusivef("scenario %d (%s, %+v): %s", r.n, sc.Name, cfg, h.broken)
		return // a broken scenario is not handed to trace validation
	}
	tf := r.file(cfg)
	for _, e := range h.trace {
		b, err := json.Marshal(e)
		if err != nil {
			panic(err)
		}
		tf.f.Write(append(b, '\n'))
		tf.Lines++
	}
	tf.Scenarios++
	if r.n%97 == 3 {
		r.rep.Sample(map[string]any{"config": cfg, "script": sc.Name, "observed": h.trace})
	}
}

// ---------------------------------------------------------------------------- draw distribution

// distribution is the statistical monitor for "drawn unpredictably from the whole extended
// square": sampled, not model-checked.  Bounds are 8 sigma around the uniform expectation per
// cell (false-alarm probability per cell < 2e-15, < 1e-10 over all cells and configurations).
func distribution(rep *vh.Report) {
	type dc struct{ w, k, n int }
	for _, c := range []dc{{4, 5, 20000}, {2, 1, 20000}, {8, 16, 10000}, {4, 16, 200}, {2, 9, 200}} {
		cnt := make([]int, c.w*c.w)
		want := c.k
		if want > c.w*c.w {
			want = c.w * c.w
		}
		for i := 0; i < c.n; i++ {
			sr := light.NewSamplingResult(c.w, c.k)
			if len(sr.Available) != 0 || len(sr.Remaining) != want {
				rep.Violate("C03/draw/wrong-sample-count", fmt.Sprintf("NewSamplingResult(%d,%d): %d remaining, %d available; want %d, 0", c.w, c.k, len(sr.Remaining), len(sr.Available), want), nil)
				return
			}
			seen := map[shwap.SampleCoords]bool{}
			for _, co := range sr.Remaining {
				if co.Row < 0 || co.Col < 0 || co.Row >= c.w || co.Col >= c.w {
					rep.Violate("C03/draw/out-of-square", fmt.Sprintf("NewSamplingResult(%d,%d) drew %v", c.w, c.k, co), nil)
					return
				}
				if seen[co] {
					rep.Violate("C03/draw/duplicate-coordinates", fmt.Sprintf("NewSamplingResult(%d,%d) drew %v twice", c.w, c.k, co), nil)
					return
				}
				seen[co] = true
				cnt[co.Row*c.w+co.Col]++
			}
		}
		rep.Count("distribution_draws", int64(c.n))
		if want == c.w*c.w {
			continue // the whole square: nothing random
		}
		p := float64(want) / float64(c.w*c.w)
		mean := float64(c.n) * p
		sigma := math.Sqrt(float64(c.n) * p * (1 - p))
		lo, hi := mean-8*sigma, mean+8*sigma
		for cell, x := range cnt {
			if float64(x) < lo || float64(x) > hi || x == 0 {
				rep.Violate("C03/draw/not-uniform-over-the-extended-square",
					fmt.Sprintf("NewSamplingResult(%d,%d) x %d: cell (%d,%d) drawn %d times, uniform expectation %.0f +- %.0f (8 sigma bounds %.0f..%.0f); counts %v",
						c.w, c.k, c.n, cell/c.w, cell%c.w, x, mean, sigma, lo, hi, cnt), map[string]any{"sampled": true})
				break
			}
		}
		rep.Count("distribution_cells_checked", int64(len(cnt)))
	}
}

// coverage is the second half of the statistical monitor: over the protocol's whole range of
// extended-square widths (2 .. 1024; share.MaxSquareSize = 512 makes 512 and 1024 legal) and a few
// widths that are not powers of two, the coordinates NewSamplingResult draws must reach the whole
// square: every one of the 4 x 4 blocks of rows x columns is hit, with a count within 8 sigma of
// its share of the area (false-alarm probability per block < 2e-15; P(a given block is never hit
// in 4096 coordinates) = (15/16)^4096 < 1e-114).  Distinctness, bounds and count always.  Sampled.
func coverage(rep *vh.Report) {
	const perDraw, coords = 16, 4096
	for _, w := range []int{2, 3, 4, 6, 8, 16, 32, 64, 100, 128, 256, 300, 512, 768, 1024} {
		want := perDraw
		if want > w*w {
			want = w * w
		}
		g := 4 // blocks per axis
		if w < 4 {
			g = w
		}
		blk := func(x int) int { return x * g / w }
		cnt := make([]int, g*g)
		total, maxRow, maxCol := 0, 0, 0
		for total < coords {
			sr := light.NewSamplingResult(w, perDraw)
			if len(sr.Available) != 0 || len(sr.Remaining) != want {
				rep.Violate("C03/draw/wrong-sample-count", fmt.Sprintf("NewSamplingResult(%d,%d): %d remaining, %d available; want %d, 0", w, perDraw, len(sr.Remaining), len(sr.Available), want), nil)
				return
			}
			seen := map[shwap.SampleCoords]bool{}
			for _, co := range sr.Remaining {
				if co.Row < 0 || co.Col < 0 || co.Row >= w || co.Col >= w {
					rep.Violate("C03/draw/out-of-square", fmt.Sprintf("NewSamplingResult(%d,%d) drew %v", w, perDraw, co), nil)
					return
				}
				if seen[co] {
					rep.Violate("C03/draw/duplicate-coordinates", fmt.Sprintf("NewSamplingResult(%d,%d) drew %v twice", w, perDraw, co), nil)
					return
				}
				seen[co] = true
				cnt[blk(co.Row)*g+blk(co.Col)]++
				if co.Row > maxRow {
					maxRow = co.Row
				}
				if co.Col > maxCol {
					maxCol = co.Col
				}
				total++
			}
		}
		rep.Count("coverage_widths", 1)
		rep.Count("coverage_coordinates", int64(total))
		if want == w*w {
			continue // the whole square every time
		}
		// exact share of every block (block sizes differ when 4 does not divide the width)
		size := make([]int, g)
		for x := 0; x < w; x++ {
			size[blk(x)]++
		}
		for b, x := range cnt {
			p := float64(size[b/g]*size[b%g]) / float64(w*w)
			mean := float64(total) * p
			sigma := math.Sqrt(float64(total) * p * (1 - p))
			if x == 0 || float64(x) < mean-8*sigma || float64(x) > mean+8*sigma {
				rep.Violate("C03/draw/not-from-the-whole-extended-square",
					fmt.Sprintf("NewSamplingResult(%d,%d), %d coordinates: the block of rows %d/%d x columns %d/%d of the %dx%d extended square was drawn %d times, expected %.0f +- %.0f (8 sigma bounds); largest row seen %d, largest column seen %d; block counts %v",
						w, perDraw, total, b/g+1, g, b%g+1, g, w, w, x, mean, sigma, maxRow, maxCol, cnt), map[string]any{"sampled": true})
				break
			}
		}
		rep.Count("coverage_blocks_checked", int64(len(cnt)))
	}
}

// ---------------------------------------------------------------------------- entry

func TestDriver(t *testing.T) {
	rep := vh.NewReport()
	defer func() {
		if err := rep.Write(); err != nil {
			t.Fatal(err)
		}
	}()
	rng := vh.Rand()
	r := &runner{rep: rep, fix: map[int]*fixture{1: newFixture(t, 1), 2: newFixture(t, 2)},
		files: map[string]*traceFile{}, rng: rng}

	var scripts []script
	if p := os.Getenv("VERIF_SCRIPTS"); p != "" {
		if err := vh.ReadJSON(p, &scripts); err != nil {
			t.Fatalf("cannot read %s: %v", p, err)
		}
	}
	// configurations: area 4 (ODS 1) and 16 (ODS 2); K below, at and above the area
	var cfgs []config
	for _, casc := range []bool{false, true} {
		for _, k := range []int{1, 2, 3, 5} {
			cfgs = append(cfgs, config{OdsW: 1, K: k, Cascade: casc})
		}
		for _, k := range []int{2, 5, 16} {
			cfgs = append(cfgs, config{OdsW: 2, K: k, Cascade: casc})
		}
	}
	big := []config{{OdsW: 2, K: 5, Cascade: false}, {OdsW: 2, K: 5, Cascade: true},
		{OdsW: 2, K: 2, Cascade: false}, {OdsW: 2, K: 2, Cascade: true}}

	// (1) behaviours / counterexamples produced by TLC
	i := 0
	for _, sc := range scripts {
		switch sc.Class {
		case "cex_orig", "cex_crash":
			// model counterexamples are replayed where a coincidentally equal re-draw is unlikely
			reps := vh.EnvInt("VERIF_CEX_REPEAT", 4)
			for j := 0; j < reps; j++ {
				for _, c := range big {
					if sc.Cascade == nil || *sc.Cascade == c.Cascade {
						r.run(c, sc, 0)
					}
				}
			}
		default:
			r.run(cfgs[i%len(cfgs)], sc, 0)
			i++
		}
	}
	// (1b) directed family: A inside the getter, B waits behind it and gives up (cancelled), C
	// arrives for the same block -- before or after B gives up, on one or on two busy heights,
	// raw and cascade wiring, small and large draws
	for _, sc := range directed() {
		for _, c := range []config{{OdsW: 2, K: 5}, {OdsW: 2, K: 5, Cascade: true}, {OdsW: 1, K: 2}, {OdsW: 1, K: 2, Cascade: true},
			{OdsW: 2, K: 2, Cascade: true}, {OdsW: 1, K: 5}} {
			r.run(c, sc, 0)
		}
	}
	// (1c) another sample amount after a restart; records without coordinates under a block's key
	for _, x := range reconfigured() {
		r.run(x.cfg, x.sc, 0)
	}
	// (2) seeded random schedules on the real state
	nSeeded := vh.EnvInt("VERIF_SEEDED", 300)
	for j := 0; j < nSeeded; j++ {
		c := cfgs[rng.Intn(len(cfgs))]
		r.run(c, script{Name: fmt.Sprintf("seeded-%d", j), Class: "seeded"}, 8+rng.Intn(25))
	}
	// (3) the statistical monitor of the draw
	distribution(rep)
	coverage(rep)

	var tfs []*traceFile
	for _, tf := range r.files {
		tf.f.Close()
		tfs = append(tfs, tf)
	}
	sort.Slice(tfs, func(a, b int) bool { return tfs[a].Path < tfs[b].Path })
	rep.Set("trace_files", tfs)
	rep.Set("configs", len(cfgs))
}
