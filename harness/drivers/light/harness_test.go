// Package light drives the real light.ShareAvailability (property C03) through scripted and
// seeded schedules with a gating stub getter, records what it observes as NDJSON for
// LightTrace.tla, and evaluates the C03 monitors on the observed behaviour.
package light

import (
	"context"
	"encoding/json"
	"errors"
	"fmt"
	"regexp"
	"runtime"
	"sort"
	"strconv"
	"strings"
	"sync"
	"testing"
	"time"

	"github.com/ipfs/go-datastore"
	dsq "github.com/ipfs/go-datastore/query"
	ds_sync "github.com/ipfs/go-datastore/sync"

	libshare "github.com/celestiaorg/go-square/v4/share"
	"github.com/celestiaorg/rsmt2d"

	"github.com/celestiaorg/celestia-node/header"
	"github.com/celestiaorg/celestia-node/header/headertest"
	"github.com/celestiaorg/celestia-node/share"
	"github.com/celestiaorg/celestia-node/share/availability"
	"github.com/celestiaorg/celestia-node/share/availability/light"
	"github.com/celestiaorg/celestia-node/share/eds"
	"github.com/celestiaorg/celestia-node/share/eds/edstest"
	"github.com/celestiaorg/celestia-node/share/shwap"
	"github.com/celestiaorg/celestia-node/share/shwap/getters"
)

// ---------------------------------------------------------------------------- fixtures

// Height ids used by the driver and by LightTrace.tla: 1, 2 normal blocks, 3 the empty block,
// 4 a block older than the sampling window.
const (
	hEmpty   = 3
	hOutside = 4
	nHeights = 4
)

type square struct {
	eds     *rsmt2d.ExtendedDataSquare
	roots   *share.AxisRoots
	samples map[shwap.SampleCoords]shwap.Sample // every real sample of the square, verified once
}

type fixture struct {
	odsW, edsW int
	hdr        map[int]*header.ExtendedHeader // height id -> header
	sq         map[int]*square                // height id -> square (normal heights and hOutside)
	rootKey    map[int]string                 // height id -> datastore key suffix
}

func newFixture(t testing.TB, odsW int) *fixture {
	f := &fixture{odsW: odsW, edsW: 2 * odsW, hdr: map[int]*header.ExtendedHeader{},
		sq: map[int]*square{}, rootKey: map[int]string{}}
	for _, h := range []int{1, 2, hOutside} {
		var e *rsmt2d.ExtendedDataSquare
		for {
			e = edstest.RandEDS(t, odsW)
			r, err := share.NewAxisRoots(e)
			if err != nil {
				t.Fatal(err)
			}
			if !share.DataHash(r.Hash()).IsEmptyEDS() {
				break
			}
		}
		roots, _ := share.NewAxisRoots(e)
		s := &square{eds: e, roots: roots, samples: map[shwap.SampleCoords]shwap.Sample{}}
		acc := &eds.Rsmt2D{ExtendedDataSquare: e}
		for r := 0; r < f.edsW; r++ {
			for c := 0; c < f.edsW; c++ {
				co := shwap.SampleCoords{Row: r, Col: c}
				smp, err := acc.Sample(context.Background(), co)
				if err != nil {
					t.Fatal(err)
				}
				if err := smp.Verify(roots, r, c); err != nil {
					t.Fatalf("fixture sample does not verify: %v", err)
				}
				s.samples[co] = smp
			}
		}
		f.sq[h] = s
		eh := headertest.ExtendedHeaderFromEDS(t, uint64(h), e)
		if h == hOutside {
			eh.RawHeader.Time = time.Now().Add(-availability.SamplingWindow - 24*time.Hour)
		}
		f.hdr[h] = eh
		f.rootKey[h] = roots.String()
	}
	eh := headertest.RandExtendedHeaderWithRoot(t, share.EmptyEDSRoots())
	eh.RawHeader.Height = hEmpty
	f.hdr[hEmpty] = eh
	return f
}

func (f *fixture) code(c shwap.SampleCoords) int { return c.Row*f.edsW + c.Col }

func (f *fixture) codes(cs []shwap.SampleCoords) []int {
	out := make([]int, len(cs))
	for i, c := range cs {
		out[i] = f.code(c)
	}
	sort.Ints(out)
	return out
}

// ---------------------------------------------------------------------------- datastore

// newDisk is the "underlying datastore" of the node: what survives a crash.
func newDisk() datastore.Batching { return ds_sync.MutexWrap(datastore.NewMapDatastore()) }

// snapshot copies the underlying datastore: the state a process started after a crash finds.
func snapshot(d datastore.Batching) (datastore.Batching, error) {
	out := newDisk()
	res, err := d.Query(context.Background(), dsq.Query{})
	if err != nil {
		return nil, err
	}
	defer res.Close()
	for e := range res.Next() {
		if e.Error != nil {
			return nil, e.Error
		}
		if err := out.Put(context.Background(), datastore.NewKey(e.Key), append([]byte(nil), e.Value...)); err != nil {
			return nil, err
		}
	}
	return out, nil
}

type diskRes struct {
	Set   bool  `json:"set"`
	Avail []int `json:"avail"`
	Rem   []int `json:"rem"`
}

// readDisk decodes the persisted sampling results of the fixture's heights from the underlying
// datastore (index 0 = height 1).
func readDisk(d datastore.Batching, f *fixture) ([]diskRes, error) {
	out := make([]diskRes, nHeights)
	for i := range out {
		out[i] = diskRes{Avail: []int{}, Rem: []int{}}
	}
	res, err := d.Query(context.Background(), dsq.Query{})
	if err != nil {
		return nil, err
	}
	defer res.Close()
	for e := range res.Next() {
		if e.Error != nil {
			return nil, e.Error
		}
		for h, k := range f.rootKey {
			if strings.HasSuffix(e.Key, "/"+k) && strings.Contains(e.Key, "sampling_result") {
				var sr light.SamplingResult
				if err := json.Unmarshal(e.Value, &sr); err != nil {
					sr = light.SamplingResult{} // a damaged record: something is stored, without coordinates
				}
				out[h-1] = diskRes{Set: true, Avail: f.codes(sr.Available), Rem: f.codes(sr.Remaining)}
			}
		}
	}
	return out, nil
}

// ---------------------------------------------------------------------------- events

type evKind int

const (
	evEnter  evKind = iota // the stub getter was called
	evSeen                 // the getter (as wired into the availability) returned
	evReturn               // SharesAvailable returned
)

type outcome struct {
	Served []int  `json:"served"` // ranks within the request sorted by (row, col)
	Len0   bool   `json:"len0"`
	Kind   string `json:"kind"` // none | error | deadline | cancelled
}

type event struct {
	kind   evKind
	epoch  int
	caller int
	height int
	coords []shwap.SampleCoords
	reply  chan outcome
	// evSeen
	n         int
	nonEmpty  []shwap.SampleCoords
	cancelled bool
	// evReturn
	err error
}

type callerKey struct{}

type callerInfo struct {
	id, epoch int
}

var errStub = errors.New("stub getter: scripted failure")

// stubGetter is the innermost getter: it records the request and blocks until the harness
// hands it the outcome, then serves real samples of the real square (or empty ones).
type stubGetter struct {
	h   *harness
	fix *fixture
}

func (g *stubGetter) GetSamples(ctx context.Context, hdr *header.ExtendedHeader, idxs []shwap.SampleCoords) ([]shwap.Sample, error) {
	ci, _ := ctx.Value(callerKey{}).(*callerInfo)
	if ci == nil {
		return nil, errors.New("stub getter: call without caller identity")
	}
	req := append([]shwap.SampleCoords(nil), idxs...)
	reply := make(chan outcome, 1)
	g.h.events <- event{kind: evEnter, epoch: ci.epoch, caller: ci.id, height: int(hdr.Height()), coords: req, reply: reply}
	o := <-reply
	var err error
	switch o.Kind {
	case "none":
	case "deadline":
		err = context.DeadlineExceeded
	case "cancelled":
		err = context.Canceled
	default:
		err = errStub
	}
	if o.Len0 {
		return nil, err
	}
	// positional answer: served ranks refer to the request sorted by (row, col)
	order := sortedOrder(req)
	serve := map[int]bool{}
	for _, r := range o.Served {
		if r >= 0 && r < len(order) {
			serve[order[r]] = true
		}
	}
	sq := g.fix.sq[int(hdr.Height())]
	out := make([]shwap.Sample, len(idxs))
	for i, co := range idxs {
		if serve[i] {
			out[i] = sq.samples[co]
		}
	}
	return out, err
}

func sortedOrder(req []shwap.SampleCoords) []int {
	order := make([]int, len(req))
	for i := range order {
		order[i] = i
	}
	sort.Slice(order, func(a, b int) bool {
		x, y := req[order[a]], req[order[b]]
		if x.Row != y.Row {
			return x.Row < y.Row
		}
		return x.Col < y.Col
	})
	return order
}

func (g *stubGetter) GetEDS(context.Context, *header.ExtendedHeader) (*rsmt2d.ExtendedDataSquare, error) {
	return nil, shwap.ErrOperationNotSupported
}

func (g *stubGetter) GetRow(context.Context, *header.ExtendedHeader, int) (shwap.Row, error) {
	return shwap.Row{}, shwap.ErrOperationNotSupported
}

func (g *stubGetter) GetNamespaceData(context.Context, *header.ExtendedHeader, libshare.Namespace) (shwap.NamespaceData, error) {
	return nil, shwap.ErrOperationNotSupported
}

func (g *stubGetter) GetRangeNamespaceData(context.Context, *header.ExtendedHeader, int, int) (shwap.RangeNamespaceData, error) {
	return shwap.RangeNamespaceData{}, shwap.ErrOperationNotSupported
}

// seenGetter wraps the getter handed to the availability (the stub itself, or
// CascadeGetter([stub])) and records what the availability receives.
type seenGetter struct {
	shwap.Getter
	h *harness
}

func (g *seenGetter) GetSamples(ctx context.Context, hdr *header.ExtendedHeader, idxs []shwap.SampleCoords) ([]shwap.Sample, error) {
	smpls, err := g.Getter.GetSamples(ctx, hdr, idxs)
	ci, _ := ctx.Value(callerKey{}).(*callerInfo)
	if ci != nil {
		var ne []shwap.SampleCoords
		for i, s := range smpls {
			if !s.IsEmpty() && i < len(idxs) {
				ne = append(ne, idxs[i])
			}
		}
		g.h.events <- event{kind: evSeen, epoch: ci.epoch, caller: ci.id, height: int(hdr.Height()),
			n: len(smpls), nonEmpty: ne, cancelled: errors.Is(err, context.Canceled)}
	}
	return smpls, err
}

// ---------------------------------------------------------------------------- harness

type callerState struct {
	phase     string // idle | running | inGetter
	height    int
	cancel    context.CancelFunc
	cancelled bool
	coords    []shwap.SampleCoords
	reply     chan outcome
	gidCh     chan int64 // the goroutine running the call reports its id here
	goid      int64
}

// ---- proving that a caller is blocked: goroutine states from the runtime

var goroutineHdr = regexp.MustCompile(`(?m)^goroutine (\d+) \[([^\]]*)\]`)

func curGoid() int64 {
	var buf [64]byte
	n := runtime.Stack(buf[:], false)
	f := strings.Fields(string(buf[:n]))
	if len(f) < 2 {
		return 0
	}
	id, _ := strconv.ParseInt(f[1], 10, 64)
	return id
}

// goroutineStates returns the scheduler state ("select", "chan receive", "running", ...) of
// every live goroutine.
func goroutineStates() map[int64]string {
	buf := make([]byte, 1<<20)
	for {
		n := runtime.Stack(buf, true)
		if n < len(buf) {
			buf = buf[:n]
			break
		}
		buf = make([]byte, 2*len(buf))
	}
	out := map[int64]string{}
	for _, m := range goroutineHdr.FindAllSubmatch(buf, -1) {
		id, _ := strconv.ParseInt(string(m[1]), 10, 64)
		out[id] = string(m[2])
	}
	return out
}

func parkedState(st string) bool {
	return !(strings.HasPrefix(st, "running") || strings.HasPrefix(st, "runnable") || strings.HasPrefix(st, "syscall"))
}

type config struct {
	OdsW    int  `json:"odsW"`
	K       int  `json:"k"`
	Cascade bool `json:"cascade"`
}

func (c config) area() int { return 4 * c.OdsW * c.OdsW }
func (c config) need() int {
	if c.K < c.area() {
		return c.K
	}
	return c.area()
}

const nCallers = 3

type harness struct {
	cfg    config
	fix    *fixture
	events chan event
	epoch  int
	disk   datastore.Batching
	avail  *light.ShareAvailability
	call   [nCallers + 1]*callerState
	trace  []map[string]any
	mon    *monitor
	wd     time.Duration
	broken string // harness-level failure (inconclusive)
	// cwHolder[height] = the caller that held the session when a waiter for that height was cancelled
	cwHolder map[int]int
	curK     int          // sample amount of the running instance
	called   map[int]bool // heights SharesAvailable was ever called for in this scenario
	planted  map[int]bool // heights with a planted record
	wg       sync.WaitGroup
	steps    int
}

func newHarness(cfg config, fix *fixture, mon *monitor) *harness {
	h := &harness{cfg: cfg, fix: fix, events: make(chan event, 256), disk: newDisk(), mon: mon, wd: 60 * time.Second,
		cwHolder: map[int]int{}, curK: cfg.K, called: map[int]bool{}, planted: map[int]bool{}}
	for i := range h.call {
		h.call[i] = &callerState{phase: "idle"}
	}
	h.newInstance()
	return h
}

func (h *harness) newInstance() {
	var g shwap.Getter = &stubGetter{h: h, fix: h.fix}
	if h.cfg.Cascade {
		g = getters.NewCascadeGetter([]shwap.Getter{g})
	}
	h.avail = light.NewShareAvailability(&seenGetter{Getter: g, h: h}, h.disk, nil, light.WithSampleAmount(uint(h.curK)))
}

// need = min(sample amount of the running instance, square area)
func (h *harness) need() int {
	if h.curK < h.cfg.area() {
		return h.curK
	}
	return h.cfg.area()
}

func (h *harness) emit(ev string, kv ...any) {
	m := map[string]any{"ev": ev}
	for i := 0; i+1 < len(kv); i += 2 {
		m[kv[i].(string)] = kv[i+1]
	}
	h.trace = append(h.trace, m)
}

// isRefusedRecord: the stored sampling result was refused -- its size fits neither the sample
// amount nor the square ("invalid sampling result"), or it does not decode at all.
func isRefusedRecord(err error) bool {
	var se *json.SyntaxError
	var te *json.UnmarshalTypeError
	return strings.Contains(err.Error(), "invalid sampling result") || errors.As(err, &se) || errors.As(err, &te) ||
		strings.Contains(err.Error(), "unexpected end of JSON input")
}

func verdict(err error) string {
	switch {
	case err == nil:
		return "ok"
	case errors.Is(err, share.ErrNotAvailable):
		return "notAvailable"
	case errors.Is(err, availability.ErrOutsideSamplingWindow):
		return "outside"
	case errors.Is(err, context.Canceled):
		return "cancelled"
	case isRefusedRecord(err):
		return "invalid"
	default:
		return "other: " + err.Error()
	}
}

// heldBy reports whether some caller of the current instance is blocked inside the getter for
// height ht (it then owns the session of that height).
func (h *harness) held(ht int) bool {
	for c := 1; c <= nCallers; c++ {
		if h.call[c].phase == "inGetter" && h.call[c].height == ht {
			return true
		}
	}
	return false
}

func (h *harness) holder(ht int) int {
	for c := 1; c <= nCallers; c++ {
		if h.call[c].phase == "inGetter" && h.call[c].height == ht {
			return c
		}
	}
	return 0
}

// quiescent: every running caller is provably blocked (its height's session is owned by a
// caller that sits in the gated getter) -- nothing can happen until the harness acts.
func (h *harness) quiescent() bool {
	for c := 1; c <= nCallers; c++ {
		cs := h.call[c]
		if cs.phase != "running" {
			continue
		}
		normal := cs.height == 1 || cs.height == 2
		if !normal || cs.cancelled || !h.held(cs.height) {
			return false
		}
	}
	return true
}

func (h *harness) settle() {
	for h.broken == "" {
		if !h.quiescent() {
			select {
			case e := <-h.events:
				h.handle(e)
			case <-time.After(h.wd):
				h.broken = fmt.Sprintf("watchdog: no event within %v while callers are running: %s", h.wd, h.describe())
			}
			continue
		}
		// By the session discipline every running caller is now blocked behind a caller that sits
		// in the gated getter.  Do not take that for granted: wait until the runtime reports each
		// of them parked (so a cancellation really hits a WAITING caller, and a caller that got
		// past the session although the height is busy has already announced itself), then look
		// at what arrived meanwhile.
		h.confirmBlocked()
		if !h.drainNow() {
			return
		}
	}
}

// drain handles every event that is already there; reports whether there was any.
func (h *harness) drainNow() bool {
	any := false
	for h.broken == "" {
		select {
		case e := <-h.events:
			h.handle(e)
			any = true
		default:
			return any
		}
	}
	return any
}

// confirmBlocked waits (bounded) until every running caller's goroutine is parked or gone.
func (h *harness) confirmBlocked() {
	deadline := time.Now().Add(5 * time.Second)
	for c := 1; c <= nCallers; c++ {
		cs := h.call[c]
		if cs.phase != "running" {
			continue
		}
		if cs.goid == 0 && cs.gidCh != nil {
			select {
			case cs.goid = <-cs.gidCh:
			case <-time.After(time.Until(deadline)):
			}
		}
		ok := false
		for cs.goid != 0 {
			st, alive := goroutineStates()[cs.goid]
			if !alive || parkedState(st) {
				ok = true
				break
			}
			if time.Now().After(deadline) {
				break
			}
			time.Sleep(200 * time.Microsecond)
		}
		if ok {
			h.mon.rep.Count("blocked_callers_confirmed_parked", 1)
		} else {
			h.mon.rep.Count("blocked_callers_not_confirmed", 1)
		}
	}
}

func (h *harness) describe() string {
	var b strings.Builder
	for c := 1; c <= nCallers; c++ {
		cs := h.call[c]
		fmt.Fprintf(&b, "caller %d: %s h=%d cancelled=%v; ", c, cs.phase, cs.height, cs.cancelled)
	}
	return b.String()
}

func (h *harness) handle(e event) {
	if e.epoch != h.epoch {
		// a call of a crashed instance: let it run out, it is not part of the observed system
		if e.kind == evEnter {
			e.reply <- outcome{Len0: true, Kind: "error"}
		}
		return
	}
	cs := h.call[e.caller]
	switch e.kind {
	case evEnter:
		h.mon.onEnter(h, e)
		cs.phase, cs.coords, cs.reply = "inGetter", e.coords, e.reply
		h.emit("enter", "c", e.caller, "h", e.height, "coords", h.fix.codes(e.coords))
	case evSeen:
		h.mon.onSeen(h, e)
		h.emit("seen", "c", e.caller, "n", e.n, "nonempty", h.fix.codes(e.nonEmpty), "cancelled", e.cancelled)
	case evReturn:
		h.mon.onReturn(h, e)
		cs.phase = "idle"
		for ht, ho := range h.cwHolder {
			if ho == e.caller {
				delete(h.cwHolder, ht)
			}
		}
		if cs.cancel != nil {
			cs.cancel()
		}
		h.emit("return", "c", e.caller, "res", verdict(e.err))
	}
}

// ---- stimuli (each returns whether it applied)

func (h *harness) doCall(c, ht int) bool {
	cs := h.call[c]
	if cs.phase != "idle" || h.fix.hdr[ht] == nil {
		return false
	}
	ci := &callerInfo{id: c, epoch: h.epoch}
	ctx, cancel := context.WithCancel(context.WithValue(context.Background(), callerKey{}, ci))
	if ho := h.holder(ht); ho != 0 && h.cwHolder[ht] == ho {
		// the situation of interest: A in the getter, a waiter behind it gave up, a further call arrives
		h.mon.rep.Count("call_after_cancelled_waiter", 1)
	}
	h.called[ht] = true
	gidCh := make(chan int64, 1)
	*cs = callerState{phase: "running", height: ht, cancel: cancel, gidCh: gidCh}
	h.emit("call", "c", c, "h", ht)
	h.mon.onCall(h, c, ht)
	hc := *h.fix.hdr[ht] // every caller holds its own header object, as callers in the node do
	av, hdr, ep := h.avail, &hc, h.epoch
	h.wg.Add(1)
	go func() {
		defer h.wg.Done()
		gidCh <- curGoid()
		var err error
		if p, v := recoverPanic(func() { err = av.SharesAvailable(ctx, hdr) }); p {
			err = fmt.Errorf("PANIC: %s", v)
		}
		h.events <- event{kind: evReturn, epoch: ep, caller: c, height: ht, err: err}
	}()
	h.settle()
	return true
}

func recoverPanic(f func()) (panicked bool, val string) {
	defer func() {
		if r := recover(); r != nil {
			panicked, val = true, fmt.Sprint(r)
		}
	}()
	f()
	return
}

func (h *harness) doRet(c int, o outcome) bool {
	cs := h.call[c]
	if cs.phase != "inGetter" {
		return false
	}
	order := sortedOrder(cs.coords)
	var served []shwap.SampleCoords
	if !o.Len0 {
		for _, r := range o.Served {
			if r >= 0 && r < len(order) {
				served = append(served, cs.coords[order[r]])
			}
		}
	}
	h.emit("ret", "c", c, "served", h.fix.codes(served), "len0", o.Len0, "kind", o.Kind, "casc", h.cfg.Cascade)
	h.mon.onRet(h, c, cs.height, served, o)
	cs.phase = "running" // it will now finish the call
	cs.reply <- o
	// the caller is past the getter: it must return without further help
	h.settleAfterRet(c)
	return true
}

// settleAfterRet waits until caller c has returned and everything it unblocked has settled.
func (h *harness) settleAfterRet(c int) {
	for h.broken == "" && h.call[c].phase == "running" {
		select {
		case e := <-h.events:
			h.handle(e)
		case <-time.After(h.wd):
			h.broken = fmt.Sprintf("watchdog: caller %d did not return within %v after the getter answered: %s", c, h.wd, h.describe())
		}
	}
	h.settle()
}

func (h *harness) doCancel(c int) bool {
	cs := h.call[c]
	if cs.phase == "idle" || cs.cancelled {
		return false
	}
	cs.cancelled = true
	if cs.phase == "running" {
		if ho := h.holder(cs.height); ho != 0 {
			h.cwHolder[cs.height] = ho
			h.mon.rep.Count("waiter_cancelled", 1)
		}
	}
	h.emit("cancel", "c", c)
	cs.cancel()
	h.settle()
	return true
}

func (h *harness) quiet() bool {
	for c := 1; c <= nCallers; c++ {
		if h.call[c].phase != "idle" {
			return false
		}
	}
	return true
}

func (h *harness) emitDisk(ev string) {
	d, err := readDisk(h.disk, h.fix)
	if err != nil {
		h.broken = "cannot read the underlying datastore: " + err.Error()
		return
	}
	h.emit(ev, "disk", d, "k", h.curK)
	h.mon.onDisk(h, ev, d)
}

func (h *harness) doFlush() bool {
	if err := h.avail.Close(context.Background()); err != nil {
		h.broken = "Close failed: " + err.Error()
		return false
	}
	h.emitDisk("flush")
	return true
}

// restart = Close, then a fresh instance over the same datastore (only between calls)
func (h *harness) doRestart(newK int) bool {
	if !h.quiet() {
		return false
	}
	if err := h.avail.Close(context.Background()); err != nil {
		h.broken = "Close failed: " + err.Error()
		return false
	}
	if newK > 0 && newK != h.curK {
		h.curK = newK
		h.mon.rep.Count("restarts_with_other_sample_amount", 1)
	}
	h.newInstance()
	h.emitDisk("restart")
	return true
}

// crash = a fresh instance over a snapshot of the underlying datastore, taken without Close;
// the interrupted instance and its calls are let go.
func (h *harness) doCrash(newK int) bool {
	snap, err := snapshot(h.disk)
	if err != nil {
		h.broken = "snapshot failed: " + err.Error()
		return false
	}
	h.epoch++
	for c := 1; c <= nCallers; c++ {
		cs := h.call[c]
		if cs.phase == "inGetter" {
			cs.reply <- outcome{Len0: true, Kind: "error"}
		}
		if cs.cancel != nil {
			cs.cancel()
		}
		*cs = callerState{phase: "idle"}
	}
	h.disk = snap
	h.cwHolder = map[int]int{}
	if newK > 0 && newK != h.curK {
		h.curK = newK
		h.mon.rep.Count("restarts_with_other_sample_amount", 1)
	}
	h.newInstance()
	h.emitDisk("crash")
	return true
}

// plantKinds: records without coordinates somebody else may leave under a block's key.
var plantKinds = map[string]string{
	"null":      `null`,
	"empty":     `{}`,
	"lists":     `{"available":[],"remaining":[]}`,
	"nulls":     `{"available":null,"remaining":null}`,
	"truncated": `{"available":[{"row":0,"col":1}],"remai`,
	"foreign":   `{"height":7,"hash":"00ff"}`,
}

// doPlant writes such a record straight into the underlying datastore, for a block the instance
// has not been asked about yet (so nothing of it is stored, buffered or in flight).
func (h *harness) doPlant(ht int, kind string) bool {
	val, ok := plantKinds[kind]
	if !ok || (ht != 1 && ht != 2) || h.called[ht] || h.planted[ht] {
		return false
	}
	key := datastore.NewKey("sampling_result").ChildString(h.fix.rootKey[ht])
	if err := h.disk.Put(context.Background(), key, []byte(val)); err != nil {
		h.broken = "plant: " + err.Error()
		return false
	}
	h.planted[ht] = true
	h.emit("plant", "h", ht, "kind", kind)
	h.mon.rep.Count("planted_records", 1)
	return true
}

// finish answers every pending getter call, waits for all calls, closes and logs the disk.
func (h *harness) finish(pick func(n int) outcome) {
	for guard := 0; guard < 64 && h.broken == "" && !h.quiet(); guard++ {
		progressed := false
		for c := 1; c <= nCallers; c++ {
			if h.call[c].phase == "inGetter" {
				h.doRet(c, pick(len(h.call[c].coords)))
				progressed = true
				break
			}
		}
		if !progressed {
			h.settle()
			if !h.quiet() {
				h.broken = "finish: callers neither in the getter nor returning: " + h.describe()
			}
		}
	}
	if h.broken == "" {
		h.doRestart(0)
	}
}

// drain lets goroutines of crashed instances run out (bounded wait; they cannot block: every
// gate they may reach is answered by handle()).
func (h *harness) drain() {
	done := make(chan struct{})
	go func() { h.wg.Wait(); close(done) }()
	for {
		select {
		case <-done:
			return
		case e := <-h.events:
			h.handle(e)
		case <-time.After(h.wd):
			h.broken = "drain: goroutines of the scenario did not finish"
			return
		}
	}
}
