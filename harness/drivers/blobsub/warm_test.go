package blobsub

import (
	"testing"

	_ "github.com/celestiaorg/celestia-node/blob"
	_ "github.com/celestiaorg/celestia-node/header/headertest"
	_ "github.com/celestiaorg/celestia-node/share/eds"
	_ "github.com/celestiaorg/celestia-node/share/eds/edstest"
	_ "verifharness/vh"
)

func TestWarm(t *testing.T) {}
