// Package blobsub drives the real blob.Service.Subscribe (property C20) with a scripted header
// channel, a gated stub getter serving real namespace data of real blocks, consumers of any
// pace and cancellation / Service.Stop / feed closure at every point; it records what it
// observes for BlobSubTrace.tla and evaluates the C20 monitors on the observed stream.
package blobsub

import (
	"bytes"
	"context"
	"encoding/json"
	"errors"
	"fmt"
	"math/rand"
	"os"
	"path/filepath"
	"sort"
	"sync"
	"sync/atomic"
	"testing"
	"time"

	"github.com/celestiaorg/celestia-app/v9/pkg/wrapper"
	libhead "github.com/celestiaorg/go-header"
	libshare "github.com/celestiaorg/go-square/v4/share"
	"github.com/celestiaorg/rsmt2d"

	"github.com/celestiaorg/celestia-node/blob"
	"github.com/celestiaorg/celestia-node/header"
	"github.com/celestiaorg/celestia-node/header/headertest"
	hdrsvc "github.com/celestiaorg/celestia-node/nodebuilder/header"
	"github.com/celestiaorg/celestia-node/share"
	"github.com/celestiaorg/celestia-node/share/eds"
	"github.com/celestiaorg/celestia-node/share/shwap"

	"verifharness/vh"
)

// ---------------------------------------------------------------------------- fixture

const (
	nBlocks = 32 // heights 1..nBlocks
	chanCap = 16 // capacity of the subscription channel in blob/service.go
)

type fixture struct {
	headers []*header.ExtendedHeader
	squares []*rsmt2d.ExtendedDataSquare
	ns      []libshare.Namespace      // 0,1: namespaces with blobs; 2: never present
	ref     map[string][][]*blob.Blob // namespace -> height-1 -> blobs in block order
	acc     []*eds.Rsmt2D
}

func newFixture(t testing.TB, rng *rand.Rand) *fixture {
	f := &fixture{ref: map[string][][]*blob.Blob{}}
	mk := func(b byte) libshare.Namespace {
		id := bytes.Repeat([]byte{b}, libshare.NamespaceVersionZeroIDSize)
		return libshare.MustNewV0Namespace(id)
	}
	filler := mk(0x11)
	// 0,1: namespaces with blobs.  2 (0x44): never present, but always inside some row's namespace
	// range (absence proofs).  3 (0x22): never present; inside the first row's range in blocks that
	// start with the low filler namespace, outside EVERY row's range in the others.  4 (0x08): never
	// present and below every row's range in every block.
	f.ns = []libshare.Namespace{mk(0x33), mk(0x55), mk(0x44), mk(0x22), mk(0x08)}
	for _, n := range f.ns {
		f.ref[n.String()] = make([][]*blob.Blob, nBlocks)
	}
	counts := [][]int{{1, 0}, {2, 1}, {0, 2}, {3, 0}, {0, 0}, {1, 3}}
	for h := 1; h <= nBlocks; h++ {
		cnt := counts[(h-1)%len(counts)]
		type grp struct {
			ns    libshare.Namespace
			blobs []*blob.Blob
		}
		groups := []grp{{ns: filler}, {ns: f.ns[0]}, {ns: f.ns[1]}}
		newBlob := func(ns libshare.Namespace) *blob.Blob {
			data := make([]byte, 50+rng.Intn(1400))
			rng.Read(data)
			b, err := blob.NewBlobV0(ns, data)
			if err != nil {
				t.Fatal(err)
			}
			return b
		}
		// the low filler opens every odd block (and every block that would be empty without it)
		if h%2 == 1 || cnt[0]+cnt[1] == 0 {
			groups[0].blobs = []*blob.Blob{newBlob(filler)}
		}
		for i := 0; i < 2; i++ {
			for j := 0; j < cnt[i]; j++ {
				groups[i+1].blobs = append(groups[i+1].blobs, newBlob(f.ns[i]))
			}
		}
		sort.SliceStable(groups, func(a, b int) bool { return groups[a].ns.IsLessThan(groups[b].ns) })
		var shares []libshare.Share
		for _, g := range groups {
			for _, b := range g.blobs {
				sh, err := b.ToShares()
				if err != nil {
					t.Fatal(err)
				}
				shares = append(shares, sh...)
			}
			if k := g.ns.String(); f.ref[k] != nil {
				f.ref[k][h-1] = g.blobs
			}
		}
		w := 1
		for w*w < len(shares) {
			w *= 2
		}
		shares = append(shares, libshare.TailPaddingShares(w*w-len(shares))...)
		sq, err := rsmt2d.ComputeExtendedDataSquare(libshare.ToBytes(shares), share.DefaultRSMT2DCodec(),
			wrapper.NewConstructor(uint64(w)))
		if err != nil {
			t.Fatal(err)
		}
		f.squares = append(f.squares, sq)
		f.acc = append(f.acc, &eds.Rsmt2D{ExtendedDataSquare: sq})
	}
	f.headers = headertest.ExtendedHeadersFromEdsses(t, f.squares)
	return f
}

// outsideAll: the namespace lies outside the namespace range of EVERY row root of block h (so the
// header alone shows that the block cannot hold it); otherwise some row's range covers it.
func (f *fixture) outsideAll(nsIdx, h int) bool {
	for _, row := range f.headers[h-1].DAH.RowRoots {
		out, err := share.IsOutsideRange(f.ns[nsIdx], row, row)
		if err != nil || !out {
			return false
		}
	}
	return true
}

// sameBlobs: exactly the reference blobs, in order.
func sameBlobs(got, want []*blob.Blob) string {
	if len(got) != len(want) {
		return fmt.Sprintf("%d blobs, want %d", len(got), len(want))
	}
	for i := range got {
		if got[i] == nil || got[i].Blob == nil {
			return fmt.Sprintf("blob %d is nil", i)
		}
		if !got[i].Namespace().Equals(want[i].Namespace()) {
			return fmt.Sprintf("blob %d: wrong namespace", i)
		}
		if !bytes.Equal(got[i].Data(), want[i].Data()) {
			return fmt.Sprintf("blob %d: wrong data", i)
		}
		if !bytes.Equal(got[i].Commitment, want[i].Commitment) {
			return fmt.Sprintf("blob %d: wrong commitment", i)
		}
	}
	return ""
}

// ---------------------------------------------------------------------------- stub getter

var errScripted = errors.New("stub getter: scripted retrieval failure")

type attemptEv struct {
	sub    int
	height int
	reply  chan bool
}

type stubGetter struct {
	sc *scenario
}

func (g *stubGetter) GetNamespaceData(ctx context.Context, h *header.ExtendedHeader, ns libshare.Namespace) (shwap.NamespaceData, error) {
	sub := g.sc.subByNS(ns)
	if sub < 0 {
		// not a subscription: the fixture self-check
		return eds.NamespaceData(ctx, g.sc.fix.acc[h.Height()-1], ns)
	}
	reply := make(chan bool, 1)
	g.sc.attCh <- attemptEv{sub: sub, height: int(h.Height()), reply: reply}
	if ok := <-reply; !ok {
		return nil, errScripted
	}
	// real namespace data (shares + proofs) of the real block; deliberately not bound to ctx
	return eds.NamespaceData(context.Background(), g.sc.fix.acc[h.Height()-1], ns)
}

func (g *stubGetter) GetSamples(context.Context, *header.ExtendedHeader, []shwap.SampleCoords) ([]shwap.Sample, error) {
	return nil, shwap.ErrOperationNotSupported
}

func (g *stubGetter) GetEDS(context.Context, *header.ExtendedHeader) (*rsmt2d.ExtendedDataSquare, error) {
	return nil, shwap.ErrOperationNotSupported
}

func (g *stubGetter) GetRow(context.Context, *header.ExtendedHeader, int) (shwap.Row, error) {
	return shwap.Row{}, shwap.ErrOperationNotSupported
}

func (g *stubGetter) GetRangeNamespaceData(context.Context, *header.ExtendedHeader, int, int) (shwap.RangeNamespaceData, error) {
	return shwap.RangeNamespaceData{}, shwap.ErrOperationNotSupported
}

// ---------------------------------------------------------------------------- gossip subscription (relay mode)

var errSubscriptionCancelled = errors.New("subscription cancelled") // permanent, like pubsub's

// fakeSubscriber stands for the gossip header subscriber below nodebuilder/header's Service: its
// subscriptions deliver the headers the harness scripts and can then fail for good.
type fakeSubscriber struct {
	mu   sync.Mutex
	subs []*fakeSubscription
}

type fakeSubscription struct {
	ch        chan *header.ExtendedHeader
	failed    chan struct{}
	errCalls  atomic.Int64 // NextHeader calls answered with the permanent error
	cancelled atomic.Bool  // Cancel() was called
}

func (f *fakeSubscriber) Subscribe() (libhead.Subscription[*header.ExtendedHeader], error) {
	sub := &fakeSubscription{ch: make(chan *header.ExtendedHeader), failed: make(chan struct{})}
	f.mu.Lock()
	f.subs = append(f.subs, sub)
	f.mu.Unlock()
	return sub, nil
}

func (f *fakeSubscriber) SetVerifier(func(context.Context, *header.ExtendedHeader) error) error {
	return nil
}

func (f *fakeSubscriber) last() *fakeSubscription {
	f.mu.Lock()
	defer f.mu.Unlock()
	if len(f.subs) == 0 {
		return nil
	}
	return f.subs[len(f.subs)-1]
}

func (s *fakeSubscription) NextHeader(ctx context.Context) (*header.ExtendedHeader, error) {
	select {
	case <-s.failed:
		s.errCalls.Add(1)
		return nil, errSubscriptionCancelled
	default:
	}
	select {
	case h := <-s.ch:
		return h, nil
	case <-s.failed:
		s.errCalls.Add(1)
		return nil, errSubscriptionCancelled
	case <-ctx.Done():
		return nil, ctx.Err()
	}
}

func (s *fakeSubscription) Cancel() { s.cancelled.Store(true) }

// ---------------------------------------------------------------------------- scenario

type step struct {
	A  string `json:"a"`
	S  int    `json:"s,omitempty"` // subscription index (0 or 1)
	H  int    `json:"h,omitempty"`
	Ok bool   `json:"ok,omitempty"`
}

type script struct {
	Name  string `json:"name"`
	Class string `json:"class"`
	Subs  int    `json:"subs"`
	NS    []int  `json:"ns"`       // fixture namespace index per subscription (default 0, 1)
	Tail  string `json:"tail"`     // answers to retrieval attempts once a stream is ending: allfail | allok | failthenok
	Offer bool   `json:"offer"`    // keep offering headers while a stream is ending
	Defer bool   `json:"defer"`    // apply all steps first, let the streams end afterwards (model counterexamples)
	Relay bool   `json:"relay"`    // feed = the real nodebuilder/header Service.Subscribe over a fake gossip subscription
	Bound int    `json:"bound_ms"` // > 0: once a stream is ending it must close within this much QUIET time
	Steps []step `json:"steps"`
}

type subscription struct {
	id         int
	nsIdx      int
	ns         libshare.Namespace
	feed       chan *header.ExtendedHeader
	out        <-chan *blob.SubscriptionResponse
	cancel     context.CancelFunc
	nextHdr    int
	pending    *attemptEv
	unconsumed int
	okAnswered []int
	recvd      []int
	cancelled  bool
	feedClosed bool
	overflow   bool
	closedSeen bool
	forced     bool              // the harness had to cancel the stream to get rid of it
	relay      *fakeSubscription // relay mode: the gossip subscription behind the feed
	unasked    int               // responses that appeared without a retrieval having been answered (drift)
	ovHeight   int               // the header that met a full buffer
	trace      []map[string]any
	tailQueue  []bool // scripted answers still to be used while ending
}

type scenario struct {
	fix     *fixture
	rep     *vh.Report
	sc      script
	svc     *blob.Service
	subs    []*subscription
	attCh   chan attemptEv
	feedFor chan *header.ExtendedHeader // handed to the next headerSub call
	stopped bool
	wd      time.Duration
	broken  string
	applied []step
}

const relaySpinBound = 5000 // NextHeader calls answered with the permanent error that prove a spinning relay

const spinBound = 300 // failing attempts for one height after cancel/stop that prove a busy loop

// notClosedSeen counts streams that stayed open under the full watchdog.  The first such finding
// is established with the generous watchdog; once it exists (the run is a violation anyway) later
// scenarios use a shorter one so that a broken tree does not cost a minute per scenario.
var notClosedSeen int

// violationsSeen: once the run has a violation (it will exit 1 whatever follows) the remaining
// scenarios use the short watchdog too, so that a badly broken tree -- where many scenarios get
// stuck -- does not cost a minute per scenario.  All findings up to the first one are established
// with the generous watchdog.
var violationsSeen int

func (s *scenario) subByNS(ns libshare.Namespace) int {
	for _, sb := range s.subs {
		if sb.ns.Equals(ns) {
			return sb.id
		}
	}
	return -1
}

func (s *scenario) replay() any {
	obs := map[string]any{}
	for _, sb := range s.subs {
		obs[fmt.Sprintf("sub%d", sb.id)] = sb.trace
	}
	return map[string]any{"driver": "blobsub", "script": s.sc.Name, "class": s.sc.Class, "tail": s.sc.Tail,
		"offer": s.sc.Offer, "steps_applied": s.applied, "observed": obs}
}

func (s *scenario) violate(sig, what string) {
	violationsSeen++
	s.rep.Violate(sig, what, s.replay())
}

func (sb *subscription) emit(ev string, kv ...any) {
	m := map[string]any{"ev": ev}
	for i := 0; i+1 < len(kv); i += 2 {
		m[kv[i].(string)] = kv[i+1]
	}
	sb.trace = append(sb.trace, m)
}

func newScenario(fix *fixture, rep *vh.Report, sc script) *scenario {
	s := &scenario{fix: fix, rep: rep, sc: sc, attCh: make(chan attemptEv, 64), wd: 60 * time.Second}
	if notClosedSeen > 0 || violationsSeen > 0 {
		s.wd = 5 * time.Second
	}
	hg := func(_ context.Context, h uint64) (*header.ExtendedHeader, error) {
		if h < 1 || int(h) > len(fix.headers) {
			return nil, errors.New("no such header")
		}
		return fix.headers[h-1], nil
	}
	hs := func(context.Context) (<-chan *header.ExtendedHeader, error) {
		if s.feedFor == nil {
			return nil, errors.New("harness: no feed prepared")
		}
		ch := s.feedFor
		s.feedFor = nil
		return ch, nil
	}
	var gossip *fakeSubscriber
	if sc.Relay {
		// the node's wiring (nodebuilder/blob/module.go): blob.NewService(..., headerService.Subscribe)
		gossip = &fakeSubscriber{}
		hs = hdrsvc.NewServiceWithSubscriber(gossip).Subscribe
	}
	s.svc = blob.NewService(nil, &stubGetter{sc: s}, hg, hs)
	if err := s.svc.Start(context.Background()); err != nil {
		s.broken = err.Error()
	}
	n := sc.Subs
	if n < 1 {
		n = 1
	}
	for i := 0; i < n && s.broken == ""; i++ {
		nsIdx := i
		if i < len(sc.NS) && sc.NS[i] >= 0 && sc.NS[i] < len(fix.ns) {
			nsIdx = sc.NS[i]
		}
		sb := &subscription{id: i, nsIdx: nsIdx, ns: fix.ns[nsIdx], feed: make(chan *header.ExtendedHeader), nextHdr: 1}
		ctx, cancel := context.WithCancel(context.Background())
		sb.cancel = cancel
		s.feedFor = sb.feed
		out, err := s.svc.Subscribe(ctx, sb.ns)
		if err != nil {
			s.broken = "Subscribe failed: " + err.Error()
			break
		}
		sb.out = out
		if gossip != nil {
			sb.relay = gossip.last()
			if sb.relay == nil {
				s.broken = "relay mode: the header service did not subscribe to the gossip subscriber"
				break
			}
			sb.feed = sb.relay.ch
		}
		if cap(out) != chanCap {
			s.violate("C20/overflow/buffer-is-not-16", fmt.Sprintf("the subscription channel buffers %d responses; the stream must end when the reader is %d behind", cap(out), chanCap))
		}
		sb.emit("reset", "script", sc.Name, "sub", i)
		s.subs = append(s.subs, sb)
	}
	return s
}

func (s *scenario) ending(sb *subscription) bool {
	return sb.cancelled || sb.feedClosed || sb.overflow || s.stopped
}

// waitAttempt blocks until the stub getter is asked on behalf of sb (the loop is then parked
// inside getAll).  Attempts of other subscriptions are parked for them.
func (s *scenario) waitAttempt(sb *subscription) bool {
	return s.waitAttemptFor(sb, s.wd, true)
}

// noteUnasked: more responses sit in the channel than retrievals were answered successfully --
// the code produced a response without asking the getter (not what BlobSub.tla describes: drift).
// The harness keeps going: what such a response carries and when the stream ends is still checked.
func (s *scenario) noteUnasked(sb *subscription, h int) bool {
	if n := len(sb.out); n > sb.unconsumed {
		sb.unasked += n - sb.unconsumed
		sb.unconsumed = n
		sb.okAnswered = append(sb.okAnswered, h)
		s.rep.Count("responses_without_retrieval", 1)
		return true
	}
	return false
}

// waitAttemptFor waits until the stub is asked on behalf of sb, or a response shows up without any
// retrieval (returns false then), or patience runs out (mustCome: that is a stuck loop).
func (s *scenario) waitAttemptFor(sb *subscription, patience time.Duration, mustCome bool) bool {
	deadline := time.After(patience)
	tick := time.NewTicker(2 * time.Millisecond)
	defer tick.Stop()
	for {
		select {
		case ev := <-s.attCh:
			if ev.sub == sb.id {
				e := ev
				sb.pending = &e
				return true
			}
			o := s.subs[ev.sub]
			if o.pending != nil {
				s.broken = "two outstanding retrievals for one subscription"
				return false
			}
			e := ev
			o.pending = &e
		case <-tick.C:
			if s.noteUnasked(sb, sb.nextHdr-1) {
				return false
			}
		case <-deadline:
			if mustCome {
				s.stuck(sb, "the subscription did not start a retrieval after taking a header / after a failed attempt")
			}
			return false
		}
	}
}

// stuck: the loop should have acted but did not.  If the stream turns out to be closed, that
// is an end without cause; otherwise the harness cannot tell (inconclusive).
func (s *scenario) stuck(sb *subscription, what string) {
	for {
		select {
		case r, ok := <-sb.out:
			if !ok {
				sb.closedSeen = true
				sb.emit("closed")
				if !s.ending(sb) {
					s.violate("C20/close/stream-ended-without-cause", "the subscription channel was closed although nobody cancelled, the service runs, the feed is open and the reader is not 16 behind ("+what+")")
				} else {
					s.broken = what
				}
				return
			}
			s.onResponse(sb, r)
		default:
			s.broken = "watchdog: " + what
			return
		}
	}
}

func (s *scenario) onResponse(sb *subscription, r *blob.SubscriptionResponse) {
	s.rep.Count("responses", 1)
	if r == nil || r.Header == nil {
		s.violate("C20/response/nil", "nil response or header on the subscription channel")
		return
	}
	h := int(r.Header.Height)
	want := len(sb.recvd) + 1
	if h != want {
		kind := "gap"
		if h < want {
			kind = "duplicate-or-out-of-order"
		}
		s.violate("C20/order/"+kind, fmt.Sprintf("subscription %d: response for height %d arrived where height %d was due (received so far %v)", sb.id, h, want, sb.recvd))
	}
	good := true
	if uint64(h) != r.Height {
		good = false
		s.violate("C20/response/height-field-differs-from-header", fmt.Sprintf("Height=%d Header.Height=%d", r.Height, h))
	}
	if h >= 1 && h <= nBlocks {
		if d := sameBlobs(r.Blobs, s.fix.ref[sb.ns.String()][h-1]); d != "" {
			good = false
			s.violate("C20/blobs/not-the-blobs-of-the-namespace-at-that-height",
				fmt.Sprintf("subscription %d, height %d: %s", sb.id, h, d))
		}
		if r.Header.Hash().String() != s.fix.headers[h-1].RawHeader.Hash().String() {
			good = false
			s.violate("C20/response/wrong-header", fmt.Sprintf("height %d: header of the response is not the header fed", h))
		}
		if len(s.fix.ref[sb.ns.String()][h-1]) == 0 {
			if s.fix.outsideAll(sb.nsIdx, h) {
				s.rep.Count("responses_for_blocks_outside_every_row_range", 1)
			} else {
				s.rep.Count("responses_for_blocks_absent_inside_a_row_range", 1)
			}
		}
		if len(r.Blobs) > 0 {
			s.rep.Count("responses_with_blobs", 1)
		} else {
			s.rep.Count("responses_without_blobs", 1)
		}
	}
	sb.recvd = append(sb.recvd, h)
	if sb.unconsumed > 0 {
		sb.unconsumed--
	}
	sb.emit("recv", "h", h, "good", good)
}

// ---- stimuli

func (s *scenario) doHdr(sb *subscription) bool {
	if s.ending(sb) || sb.closedSeen || sb.pending != nil || sb.nextHdr > nBlocks {
		return false
	}
	full := sb.unconsumed == chanCap
	if full && sb.relay != nil {
		// through the relay the hand-over to the loop is not synchronous with this send, so whether
		// the loop meets a full buffer would depend on timing: overflow is exercised with the direct feed
		return false
	}
	h := sb.nextHdr
	select {
	case sb.feed <- s.fix.headers[h-1]:
	case <-time.After(s.wd):
		s.stuck(sb, fmt.Sprintf("the subscription did not take header %d from the feed", h))
		return false
	}
	sb.nextHdr++
	sb.emit("hdr", "h", h)
	s.rep.Count("headers_fed", 1)
	if full {
		// the reader is a full buffer behind: the stream must end now
		sb.overflow = true
		sb.ovHeight = h
		s.rep.Count("overflow_situations", 1)
		if len(s.fix.ref[sb.ns.String()][h-1]) == 0 {
			if s.fix.outsideAll(sb.nsIdx, h) {
				s.rep.Count("overflow_header_absent_outside_every_row_range", 1)
			} else {
				s.rep.Count("overflow_header_absent_inside_a_row_range", 1)
			}
		}
		s.finishStream(sb)
		return true
	}
	s.waitAttempt(sb)
	if sb.pending != nil && sb.pending.height != h {
		s.violate("C20/retrieval/for-a-different-height", fmt.Sprintf("header %d was taken but the retrieval asks for height %d", h, sb.pending.height))
	}
	return true
}

// doHdrNoWait feeds the next header and gives the retrieval a moment to start, without insisting:
// used to make the retrievals of two subscriptions for the same height overlap.
func (s *scenario) doHdrNoWait(sb *subscription) bool {
	if s.ending(sb) || sb.closedSeen || sb.pending != nil || sb.nextHdr > nBlocks || sb.unconsumed == chanCap {
		return false
	}
	h := sb.nextHdr
	select {
	case sb.feed <- s.fix.headers[h-1]:
	case <-time.After(s.wd):
		s.stuck(sb, fmt.Sprintf("the subscription did not take header %d from the feed", h))
		return false
	}
	sb.nextHdr++
	sb.emit("hdr", "h", h)
	s.rep.Count("headers_fed", 1)
	if !s.waitAttemptFor(sb, 2*time.Second, false) && sb.pending == nil {
		s.rep.Count("retrieval_not_started_within_grace", 1)
	}
	return true
}

func (s *scenario) doAtt(sb *subscription, ok bool) bool {
	if sb.pending == nil || s.ending(sb) {
		return false
	}
	h := sb.pending.height
	sb.emit("att", "h", h, "ok", ok)
	s.rep.Count("attempts", 1)
	p := sb.pending
	sb.pending = nil
	p.reply <- ok
	if ok {
		s.rep.Count("attempts_ok", 1)
		sb.okAnswered = append(sb.okAnswered, h)
		sb.unconsumed++
		return true
	}
	s.rep.Count("attempts_failed", 1)
	// the loop must retry the same height
	if s.waitAttempt(sb) && sb.pending.height != h {
		s.violate("C20/retry/failed-height-skipped", fmt.Sprintf("subscription %d: retrieval of height %d failed and the next retrieval is for height %d", sb.id, h, sb.pending.height))
	} else if sb.pending != nil {
		s.rep.Count("retries_same_height", 1)
	}
	return true
}

// doAttFailNoWait answers the gated retrieval with a failure and does not insist on the retry: the
// next stimulus (a cancel, a stop) then meets the loop wherever it is after a failed attempt.
func (s *scenario) doAttFailNoWait(sb *subscription) bool {
	if sb.pending == nil || s.ending(sb) {
		return false
	}
	sb.emit("attnw", "h", sb.pending.height)
	s.rep.Count("attempts", 1)
	s.rep.Count("attempts_failed", 1)
	p := sb.pending
	sb.pending = nil
	p.reply <- false
	// Give the loop a moment to get past its checks after the failed attempt: either it is back in
	// the stub (the retry is gated, as it is at once when nothing sits between two attempts) or it is
	// doing something else between attempts -- which is where the next stimulus shall meet it.
	grace := time.After(2 * time.Second)
	for sb.pending == nil {
		select {
		case ev := <-s.attCh:
			e := ev
			if ev.sub == sb.id {
				sb.pending = &e
				s.rep.Count("retries_same_height", 1)
			} else if o := s.subs[ev.sub]; o.pending == nil {
				o.pending = &e
			}
		case <-grace:
			s.rep.Count("retry_not_started_within_grace", 1)
			return true
		}
	}
	return true
}

func (s *scenario) doConsume(sb *subscription) bool {
	if !sb.closedSeen && sb.pending == nil {
		s.noteUnasked(sb, sb.nextHdr-1)
	}
	if sb.unconsumed == 0 || sb.closedSeen {
		return false
	}
	select {
	case r, ok := <-sb.out:
		if !ok {
			sb.closedSeen = true
			sb.emit("closed")
			s.violate("C20/close/stream-ended-without-cause", fmt.Sprintf("subscription %d: channel closed while %d responses were still owed to the reader and nothing had ended the stream", sb.id, sb.unconsumed))
			return true
		}
		s.onResponse(sb, r)
		s.rep.Count("consumed_while_running", 1)
	case <-time.After(s.wd):
		s.broken = fmt.Sprintf("a response that was retrieved successfully (heights %v) never arrived (received %v)", sb.okAnswered, sb.recvd)
	}
	return true
}

func (s *scenario) doCancel(sb *subscription) bool {
	if sb.cancelled || sb.closedSeen {
		return false
	}
	sb.cancelled = true
	sb.emit("cancel")
	sb.cancel()
	s.rep.Count("cancels", 1)
	if !s.sc.Defer {
		s.finishStream(sb)
	}
	return true
}

func (s *scenario) doFeedClose(sb *subscription) bool {
	if sb.feedClosed || sb.closedSeen {
		return false
	}
	sb.feedClosed = true
	if sb.relay != nil {
		// the gossip subscription dies for good; closing the feed is the relay's job
		sb.emit("feederr")
		close(sb.relay.failed)
		s.rep.Count("feed_errors_through_relay", 1)
	} else {
		sb.emit("feedclose")
		close(sb.feed)
		s.rep.Count("feed_closes", 1)
	}
	if !s.sc.Defer {
		s.finishStream(sb)
	}
	return true
}

func (s *scenario) doStop() bool {
	if s.stopped {
		return false
	}
	s.stopped = true
	for _, sb := range s.subs {
		if !sb.closedSeen {
			sb.emit("stop")
		}
	}
	if err := s.svc.Stop(context.Background()); err != nil {
		s.broken = "Stop: " + err.Error()
	}
	s.rep.Count("stops", 1)
	for _, sb := range s.subs {
		if !sb.closedSeen && !s.sc.Defer {
			s.finishStream(sb)
		}
	}
	return true
}

// finishStream: something that must end the stream has happened.  The harness now reads the
// channel until it is closed, keeps answering retrieval attempts at once (scripted answers first,
// then the tail policy) and -- if asked to -- keeps offering headers, so the loop has no
// blocking point left but its own selects.  It must end; while every answer is a failure it must
// not take more than a handful of attempts.
func (s *scenario) finishStream(sb *subscription) {
	if s.broken != "" || sb.closedSeen {
		return
	}
	s.rep.Count("streams_ending", 1)
	failsAfter, failHeight := 0, 0
	var failsInRow int
	answer := func(ev *attemptEv) {
		var ok bool
		switch {
		case len(sb.tailQueue) > 0:
			ok, sb.tailQueue = sb.tailQueue[0], sb.tailQueue[1:]
		case s.sc.Tail == "allok":
			ok = true
		case s.sc.Tail == "failthenok" || (sb.feedClosed && !sb.cancelled && !s.stopped) || (sb.overflow && !sb.cancelled && !s.stopped):
			// a closed feed / an overflow is noticed at the select only: retrievals must not fail for ever
			ok = failsInRow >= 2
		default:
			ok = false
		}
		if sb.forced {
			ok = true
		}
		sb.emit("att", "h", ev.height, "ok", ok)
		s.rep.Count("attempts", 1)
		s.rep.Count("attempts_while_ending", 1)
		if ok {
			failsInRow = 0
			sb.okAnswered = append(sb.okAnswered, ev.height)
		} else {
			failsInRow++
			if ev.height != failHeight {
				failHeight, failsAfter = ev.height, 0
			}
			failsAfter++
		}
		ev.reply <- ok
	}
	if sb.pending != nil {
		p := sb.pending
		sb.pending = nil
		answer(p)
	}
	// quiet-time bound: the timer below restarts with every event the harness handles (an attempt
	// answered at once, a response read, a header taken), so it only runs while no retrieval is
	// gated, the reader is draining and the cause is in place -- the loop has nowhere to block.
	bound := time.Duration(s.sc.Bound) * time.Millisecond
	boundFired := false
	quietSince := time.Now()
	tick := time.NewTicker(5 * time.Millisecond)
	defer tick.Stop()
	idle := make(chan struct{}, 1)
	for s.broken == "" {
		patience := s.wd
		if bound > 0 && !boundFired {
			patience = bound
		}
		var feed chan *header.ExtendedHeader
		if s.sc.Offer && !sb.feedClosed && sb.nextHdr <= nBlocks {
			feed = sb.feed
		}
		var hdr *header.ExtendedHeader
		if feed != nil {
			hdr = s.fix.headers[sb.nextHdr-1]
		}
		select {
		case r, ok := <-sb.out:
			quietSince = time.Now()
			if !ok {
				sb.closedSeen = true
				sb.emit("closed")
				s.rep.Count("streams_closed", 1)
				if bound > 0 && !boundFired {
					s.rep.Count("streak_closed_within_bound", 1)
				}
				s.checkEnd(sb)
				return
			}
			if sb.overflow && !sb.cancelled && !s.stopped && !sb.feedClosed && !sb.forced && r != nil && r.Header != nil &&
				int(r.Header.Height) == sb.ovHeight {
				s.violate("C20/overflow/stream-continues-when-reader-is-a-full-buffer-behind",
					fmt.Sprintf("subscription %d: header %d arrived while %d responses were unread, yet a response for it was produced", sb.id, sb.ovHeight, chanCap))
				sb.forced = true
				sb.cancel()
			}
			s.onResponse(sb, r)
		case ev := <-s.attCh:
			quietSince = time.Now()
			if ev.sub != sb.id {
				o := s.subs[ev.sub]
				e := ev
				if o.pending != nil {
					s.broken = "two outstanding retrievals for one subscription"
				}
				o.pending = &e
				continue
			}
			e := ev
			if sb.overflow && !sb.cancelled && !s.stopped && !sb.feedClosed && !sb.forced {
				// the header that met a full buffer is being processed: the overflow check did not end the stream
				s.violate("C20/overflow/stream-continues-when-reader-is-a-full-buffer-behind",
					fmt.Sprintf("subscription %d: header %d arrived while %d responses were unread, yet its retrieval was started", sb.id, e.height, chanCap))
				sb.forced = true
				sb.cancel()
			}
			answer(&e)
			if failsAfter > spinBound && !sb.forced {
				// not a matter of timing: hundreds of immediate failures later the loop still retries
				switch {
				case sb.cancelled:
					s.violate("C20/cancel/retry-loop-ignores-cancellation", fmt.Sprintf("subscription %d: %d failing retrievals of height %d after the subscriber cancelled, stream still open", sb.id, failsAfter, failHeight))
				case s.stopped:
					s.violate("C20/stop/retry-loop-ignores-service-stop", fmt.Sprintf("subscription %d: Service.Stop was called while the retrieval of height %d kept failing; %d further attempts later the stream is still open (the retry loop only looks at the subscriber's context)", sb.id, failHeight, failsAfter))
				default:
					s.broken = "retrieval keeps failing with nothing to end the stream"
				}
				sb.forced = true
				sb.cancel() // get rid of the goroutine
			}
		case feed <- hdr:
			quietSince = time.Now()
			sb.emit("hdr", "h", sb.nextHdr)
			sb.nextHdr++
			s.rep.Count("headers_taken_while_ending", 1)
		case <-tick.C:
			if sb.relay != nil && sb.feedClosed && !sb.forced && sb.relay.errCalls.Load() > relaySpinBound {
				// not a matter of timing: the relay has been told thousands of times that the gossip
				// subscription is gone and still neither closed the feed nor let go of the subscription
				s.violate("C20/feed/stream-stays-open-after-header-subscription-ended",
					fmt.Sprintf("subscription %d: the gossip header subscription failed for good (NextHeader returned %q %d times), the header feed was not closed and the blob stream is still open (gossip subscription cancelled: %v)",
						sb.id, errSubscriptionCancelled, sb.relay.errCalls.Load(), sb.relay.cancelled.Load()))
				sb.forced = true
				sb.cancel()
			}
			if time.Since(quietSince) > patience {
				select {
				case idle <- struct{}{}:
				default:
				}
			}
			continue
		case <-idle:
			quietSince = time.Now()
			if bound > 0 && !boundFired {
				boundFired = true
				s.violate("C20/close/not-prompt-after-failure-streak", fmt.Sprintf("subscription %d: after a streak of failing retrievals of one height, %v of quiet time after cancel=%v stop=%v the channel is still open (nothing is gated, the reader is reading): the end of the stream waits for something else than the cancellation", sb.id, bound, sb.cancelled, s.stopped))
				sb.forced = true
				continue // keep draining so that the goroutine can go away
			}
			// quiescence: no retrieval is gated (every attempt is answered at once above), the
			// reader is reading, the cause is in place -- the loop has nowhere to block
			s.violate("C20/close/not-closed-after-cause", fmt.Sprintf("subscription %d: %v after cancel=%v stop=%v feedClosed=%v overflow=%v the channel is still open", sb.id, s.wd, sb.cancelled, s.stopped, sb.feedClosed, sb.overflow))
			notClosedSeen++
			sb.forced = true
			sb.cancel()
			return
		}
	}
}

// checkEnd: the stream has ended; was that allowed, and did it deliver what it had to?
func (s *scenario) checkEnd(sb *subscription) {
	if sb.forced {
		return
	}
	if sb.relay != nil && (sb.cancelled || sb.feedClosed) {
		// the relay ends with the subscriber's context / with the gossip subscription and must let
		// go of the gossip subscription (hygiene, not part of the property: counted, not alarmed)
		ok := false
		for t0 := time.Now(); time.Since(t0) < 5*time.Second; time.Sleep(time.Millisecond) {
			if sb.relay.cancelled.Load() {
				ok = true
				break
			}
		}
		if ok {
			s.rep.Count("relay_gossip_subscription_cancelled", 1)
		} else {
			s.rep.Count("relay_gossip_subscription_not_cancelled", 1)
		}
	}
	if !s.ending(sb) {
		s.violate("C20/close/stream-ended-without-cause", fmt.Sprintf("subscription %d closed: no cancel, no stop, feed open, reader not behind", sb.id))
	}
	// every successfully retrieved height must have been delivered; only a cancellation may
	// drop the response in flight
	missing := len(sb.okAnswered) - len(sb.recvd)
	if missing < 0 {
		s.violate("C20/order/response-without-retrieval", fmt.Sprintf("received %v but only %v were retrieved", sb.recvd, sb.okAnswered))
	}
	if missing > 1 || (missing == 1 && !sb.cancelled) {
		s.violate("C20/loss/retrieved-response-never-delivered", fmt.Sprintf("subscription %d: heights %v were retrieved, only %v delivered (cancelled=%v)", sb.id, sb.okAnswered, sb.recvd, sb.cancelled))
	}
	switch {
	case sb.cancelled:
		s.rep.Count("ended_by_cancel", 1)
	case s.stopped:
		s.rep.Count("ended_by_stop", 1)
	case sb.feedClosed:
		s.rep.Count("ended_by_feed_close", 1)
		if sb.relay != nil {
			s.rep.Count("ended_by_feed_error_through_relay", 1)
		}
	case sb.overflow:
		s.rep.Count("ended_by_overflow", 1)
		if len(sb.recvd) != len(sb.okAnswered) || len(sb.recvd) < chanCap {
			s.violate("C20/overflow/buffered-responses-lost", fmt.Sprintf("after the overflow end %d responses were readable, %d were retrieved", len(sb.recvd), len(sb.okAnswered)))
		}
	}
}

func (s *scenario) apply(st step) bool {
	if st.S < 0 || st.S >= len(s.subs) {
		return false
	}
	sb := s.subs[st.S]
	switch st.A {
	case "hdr":
		return s.doHdr(sb)
	case "hdrnw":
		return s.doHdrNoWait(sb)
	case "att":
		return s.doAtt(sb, st.Ok)
	case "attnw":
		return s.doAttFailNoWait(sb)
	case "consume":
		return s.doConsume(sb)
	case "cancel":
		return s.doCancel(sb)
	case "feedclose":
		return s.doFeedClose(sb)
	case "stop":
		return s.doStop()
	}
	return false
}

// run executes the script; whatever is still open afterwards is ended by cancellation (for
// the second half of the subscriptions by Service.Stop).
func (s *scenario) run() {
	for idx, st := range s.sc.Steps {
		if s.broken != "" {
			break
		}
		// scripted answers after the step that ends a stream become its tail queue
		if st.A == "cancel" || st.A == "stop" || st.A == "feedclose" {
			for _, later := range s.sc.Steps[idx+1:] {
				if later.A == "att" && later.S == st.S {
					for _, sb := range s.subs {
						if st.A == "stop" || sb.id == st.S {
							sb.tailQueue = append(sb.tailQueue, later.Ok)
						}
					}
				}
			}
		}
		if s.apply(st) {
			s.applied = append(s.applied, st)
		}
	}
	if s.sc.Defer {
		for _, sb := range s.subs {
			if s.broken == "" && !sb.closedSeen && s.ending(sb) {
				s.finishStream(sb)
			}
		}
	}
	if s.broken == "" && !s.stopped && len(s.subs) > 1 {
		s.doStop()
	}
	for _, sb := range s.subs {
		if s.broken == "" && !sb.closedSeen {
			s.doCancel(sb)
		}
	}
	for _, sb := range s.subs {
		sb.cancel()
	}
}

// ---------------------------------------------------------------------------- scripts

func seq(parts ...[]step) []step {
	var out []step
	for _, p := range parts {
		out = append(out, p...)
	}
	return out
}

// block: one header with the given attempt outcomes, optionally consumed
func block(sub int, fails int, consume bool) []step {
	out := []step{{A: "hdr", S: sub}}
	for i := 0; i < fails; i++ {
		out = append(out, step{A: "att", S: sub, Ok: false})
	}
	out = append(out, step{A: "att", S: sub, Ok: true})
	if consume {
		out = append(out, step{A: "consume", S: sub})
	}
	return out
}

// systematic: a trigger (cancel / stop / feedclose) inserted at every point of a base run, with
// every tail policy, with and without further headers on offer.
func systematic() []script {
	bases := map[string][]step{
		"clean":      seq(block(0, 0, true), block(0, 0, true), block(0, 0, false)),
		"failing":    seq(block(0, 2, true), block(0, 1, false), []step{{A: "hdr"}, {A: "att"}, {A: "att"}}),
		"slowreader": seq(block(0, 0, false), block(0, 1, false), block(0, 0, false), []step{{A: "consume"}}),
	}
	var out []script
	names := []string{"clean", "failing", "slowreader"}
	for _, bn := range names {
		base := bases[bn]
		for p := 0; p <= len(base); p++ {
			for _, trig := range []string{"cancel", "stop", "feedclose"} {
				for _, tail := range []string{"allfail", "allok"} {
					for _, offer := range []bool{false, true} {
						st := append(append([]step{}, base[:p]...), step{A: trig})
						out = append(out, script{Name: fmt.Sprintf("sys-%s-%s@%d-%s-offer=%v", bn, trig, p, tail, offer),
							Class: "systematic", Subs: 1, Tail: tail, Offer: offer, Steps: st})
					}
				}
			}
			// the node's wiring: the header subscription ends (closes the feed) when the subscriber
			// cancels; and a stop arriving together with a cancellation
			for _, pair := range [][]string{{"cancel", "feedclose"}, {"feedclose", "cancel"}, {"stop", "cancel"}, {"feedclose", "stop"}} {
				st := append(append([]step{}, base[:p]...), step{A: pair[0]}, step{A: pair[1]})
				out = append(out, script{Name: fmt.Sprintf("sys-%s-%s+%s@%d", bn, pair[0], pair[1], p),
					Class: "systematic", Subs: 1, Tail: "allfail", Defer: true, Steps: st})
			}
		}
	}
	return out
}

func seeded(rng *rand.Rand, n int) []script {
	var out []script
	for i := 0; i < n; i++ {
		subs := 1 + rng.Intn(2)
		var st []step
		l := 5 + rng.Intn(40)
		for j := 0; j < l; j++ {
			sub := rng.Intn(subs)
			switch x := rng.Intn(100); {
			case x < 30:
				st = append(st, step{A: "hdr", S: sub})
			case x < 65:
				st = append(st, step{A: "att", S: sub, Ok: rng.Intn(3) > 0})
			case x < 90:
				st = append(st, step{A: "consume", S: sub})
			case x < 93:
				st = append(st, step{A: "cancel", S: sub})
			case x < 95:
				st = append(st, step{A: "feedclose", S: sub})
			case x < 96:
				st = append(st, step{A: "stop"})
			default:
				st = append(st, block(sub, rng.Intn(3), rng.Intn(2) == 0)...)
			}
		}
		tails := []string{"allfail", "allok", "failthenok"}
		perm := rng.Perm(5)
		out = append(out, script{Name: fmt.Sprintf("seeded-%d", i), Class: "seeded", Subs: subs, NS: perm[:subs],
			Tail: tails[rng.Intn(3)], Offer: rng.Intn(2) == 0, Steps: st})
	}
	return out
}

// overflow: a reader that stalls (or is slow) until it is a full buffer behind.
func overflow(rng *rand.Rand, n int) []script {
	var out []script
	for i := 0; i < n; i++ {
		var st []step
		lag := 0
		for lag < chanCap {
			st = append(st, block(0, rng.Intn(2), false)...)
			lag++
			if i > 0 && lag > 1 && rng.Intn(6) == 0 { // a slow reader
				st = append(st, step{A: "consume"})
				lag--
			}
		}
		st = append(st, step{A: "hdr"}) // the 17th header meets a full buffer
		out = append(out, script{Name: fmt.Sprintf("overflow-%d", i), Class: "overflow", Subs: 1 + i%2, Tail: "failthenok", Steps: st})
	}
	return out
}

// streaks: one height fails many times in a row (instantaneous here: the stub fails at once), then
// the subscriber cancels / the service stops right after a failed attempt.  The stream must end
// within a bounded quiet time -- whatever the loop does between two attempts must watch both
// contexts.
func streaks() []script {
	var out []script
	for _, trig := range []string{"cancel", "stop"} {
		for _, k := range []int{10} {
			for _, pre := range []int{0, 1} {
				var st []step
				for i := 0; i < pre; i++ {
					st = append(st, block(0, 0, true)...)
				}
				st = append(st, step{A: "hdr"})
				for i := 0; i < k-1; i++ {
					st = append(st, step{A: "att", Ok: false})
				}
				st = append(st, step{A: "attnw"}, step{A: trig})
				out = append(out, script{Name: fmt.Sprintf("streak-%d-fails-then-%s-pre%d", k, trig, pre), Class: "streak",
					Subs: 1, Tail: "allfail", Bound: 8000, Steps: st})
			}
		}
	}
	return out
}

// relayScripts: the node's wiring -- the feed is the real nodebuilder/header Service.Subscribe over a
// scripted gossip subscription.  The gossip subscription fails for good / the subscriber cancels /
// the service stops at every point of three base runs; after a permanent failure the relay must
// close the feed and the blob stream must end.
func relayScripts() []script {
	bases := map[string][]step{
		"clean":      seq(block(0, 0, true), block(0, 0, true), block(0, 0, false)),
		"failing":    seq(block(0, 2, true), block(0, 1, false), []step{{A: "hdr"}, {A: "att"}, {A: "att"}}),
		"slowreader": seq(block(0, 0, false), block(0, 1, false), block(0, 0, false), []step{{A: "consume"}}),
	}
	var out []script
	for _, bn := range []string{"clean", "failing", "slowreader"} {
		base := bases[bn]
		for p := 0; p <= len(base); p++ {
			for _, trig := range []string{"feedclose", "cancel", "stop"} {
				st := append(append([]step{}, base[:p]...), step{A: trig})
				sc := script{Name: fmt.Sprintf("relay-%s-%s@%d", bn, trig, p), Class: "relay", Relay: true, Subs: 1,
					Tail: "allfail", Offer: p%2 == 1, Steps: st}
				if trig == "feedclose" {
					sc.Bound = 8000
				}
				out = append(out, sc)
			}
		}
	}
	// k delivered headers, then the gossip subscription dies; two subscriptions
	for k := 0; k <= 4; k++ {
		var st []step
		for i := 0; i < k; i++ {
			st = append(st, block(i%2, i%2, i%3 == 0)...)
		}
		st = append(st, step{A: "feedclose", S: 0}, step{A: "hdr", S: 1}, step{A: "att", S: 1, Ok: true}, step{A: "consume", S: 1},
			step{A: "feedclose", S: 1})
		out = append(out, script{Name: fmt.Sprintf("relay-two-subs-%d", k), Class: "relay", Relay: true, Subs: 2, NS: []int{k % 2, 3},
			Tail: "failthenok", Bound: 8000, Steps: st})
	}
	return out
}

// absentOverflow: subscriptions on namespaces no block contains; the reader stalls (or reads a
// little) until it is a full buffer behind, and the header that then arrives is a block whose row
// roots (a) do not cover the namespace at all / (b) cover it without containing it.
func absentOverflow(fix *fixture) []script {
	var out []script
	for _, nsIdx := range []int{3, 4, 2, 0} {
		for _, wantOutside := range []bool{true, false} {
			c := -1
			for k := 0; k <= 10 && chanCap+1+k <= nBlocks; k++ {
				if fix.outsideAll(nsIdx, chanCap+1+k) == wantOutside && (nsIdx != 0 || len(fix.ref[fix.ns[0].String()][chanCap+k]) == 0) {
					c = k
					break
				}
			}
			if c < 0 {
				continue
			}
			var st []step
			for i := 0; i < chanCap+c; i++ {
				st = append(st, block(0, i%3%2, false)...)
				if i >= 2 && i < 2+c {
					st = append(st, step{A: "consume"})
				}
			}
			st = append(st, step{A: "hdr"}) // meets a full buffer
			out = append(out, script{Name: fmt.Sprintf("absent-overflow-ns%d-outside=%v-consumed%d", nsIdx, wantOutside, c),
				Class: "absent", Subs: 1, NS: []int{nsIdx}, Tail: "failthenok", Steps: st})
		}
	}
	return out
}

// absentTriggers: cancel / stop / feed close at every point of a run over blocks that do not hold
// the subscribed namespace.
func absentTriggers() []script {
	var out []script
	base := seq(block(0, 0, true), block(0, 1, false), block(0, 0, false), block(0, 0, true), []step{{A: "hdr"}})
	for _, nsIdx := range []int{3, 4, 2} {
		for p := 0; p <= len(base); p++ {
			for _, trig := range []string{"cancel", "stop", "feedclose"} {
				st := append(append([]step{}, base[:p]...), step{A: trig})
				out = append(out, script{Name: fmt.Sprintf("absent-ns%d-%s@%d", nsIdx, trig, p), Class: "absent", Subs: 1,
					NS: []int{nsIdx}, Tail: "allfail", Offer: p%2 == 0, Steps: st})
			}
		}
	}
	return out
}

// overlap: two subscriptions on DIFFERENT namespaces get the same header and their retrievals of
// that height are in flight (gated) at the same time; each must receive the blobs of ITS namespace.
func overlap() []script {
	var out []script
	for _, pair := range [][]int{{0, 1}, {1, 0}, {0, 4}, {3, 2}, {1, 3}} {
		st := []step{
			{A: "hdrnw", S: 0}, {A: "hdrnw", S: 1}, {A: "att", S: 0, Ok: true}, {A: "att", S: 1, Ok: true}, {A: "consume", S: 0}, {A: "consume", S: 1},
			{A: "hdrnw", S: 1}, {A: "hdrnw", S: 0}, {A: "att", S: 1, Ok: true}, {A: "att", S: 0, Ok: true}, {A: "consume", S: 1}, {A: "consume", S: 0},
			{A: "hdrnw", S: 0}, {A: "hdrnw", S: 1}, {A: "att", S: 0, Ok: false}, {A: "att", S: 1, Ok: true}, {A: "att", S: 0, Ok: true}, {A: "consume", S: 0}, {A: "consume", S: 1},
			{A: "hdrnw", S: 0}, {A: "hdrnw", S: 1}, {A: "att", S: 1, Ok: false}, {A: "att", S: 0, Ok: true}, {A: "att", S: 1, Ok: true}, {A: "consume", S: 0}, {A: "consume", S: 1},
		}
		out = append(out, script{Name: fmt.Sprintf("overlap-ns%d-ns%d", pair[0], pair[1]), Class: "overlap", Subs: 2, NS: pair,
			Tail: "allok", Steps: st})
	}
	return out
}

// ---------------------------------------------------------------------------- entry

func TestDriver(t *testing.T) {
	rep := vh.NewReport()
	defer func() {
		if err := rep.Write(); err != nil {
			t.Fatal(err)
		}
	}()
	rng := vh.Rand()
	fix := newFixture(t, rng)

	// self-check of the fixture through the real retrieval path: GetAll equals the reference
	{
		s := newScenario(fix, rep, script{Name: "selfcheck", Subs: 1})
		s.subs[0].ns = libshare.MustNewV0Namespace(bytes.Repeat([]byte{0x77}, libshare.NamespaceVersionZeroIDSize)) // nothing is gated
		for h := 1; h <= nBlocks; h++ {
			for _, ns := range fix.ns {
				got, err := s.svc.GetAll(context.Background(), uint64(h), []libshare.Namespace{ns})
				if err != nil {
					t.Fatalf("fixture self-check: GetAll(%d): %v", h, err)
				}
				if d := sameBlobs(got, fix.ref[ns.String()][h-1]); d != "" {
					t.Fatalf("fixture self-check: height %d: %s", h, d)
				}
			}
		}
		s.subs[0].cancel()
		for range s.subs[0].out {
		}
	}

	var scripts []script
	if p := os.Getenv("VERIF_SCRIPTS"); p != "" {
		if err := vh.ReadJSON(p, &scripts); err != nil {
			t.Fatalf("cannot read %s: %v", p, err)
		}
	}
	var all []script
	for _, sc := range scripts {
		reps := 1
		if sc.Class == "cex_orig" {
			reps = vh.EnvInt("VERIF_CEX_REPEAT", 6)
		}
		for i := 0; i < reps; i++ {
			all = append(all, sc)
		}
	}
	all = append(all, streaks()...)
	all = append(all, relayScripts()...)
	all = append(all, absentOverflow(fix)...)
	all = append(all, absentTriggers()...)
	all = append(all, overlap()...)
	all = append(all, systematic()...)
	all = append(all, overflow(rng, vh.EnvInt("VERIF_OVERFLOW", 6))...)
	all = append(all, seeded(rng, vh.EnvInt("VERIF_SEEDED", 200))...)

	tracePath := filepath.Join(vh.WorkDir(), "blobsub_trace.ndjson")
	tf, err := os.Create(tracePath)
	if err != nil {
		t.Fatal(err)
	}
	relayPath := filepath.Join(vh.WorkDir(), "blobsub_trace_relay.ndjson")
	rf, err := os.Create(relayPath)
	if err != nil {
		t.Fatal(err)
	}
	nTraces, nLines, nRelayTraces := 0, 0, 0
	for n, sc := range all {
		s := newScenario(fix, rep, sc)
		if s.broken == "" {
			s.run()
		}
		rep.Count("scenarios", 1)
		rep.Count("scenarios_"+sc.Class, 1)
		rep.Count("steps_applied_"+sc.Class, int64(len(s.applied)))
		if len(s.subs) > 1 {
			rep.Count("scenarios_two_subscriptions", 1)
		}
		if s.broken != "" {
			rep.Inconclusivef("scenario %s: %s", sc.Name, s.broken)
			continue
		}
		for _, sb := range s.subs {
			if sb.unasked > 0 {
				rep.Inconclusivef("conformance drift: scenario %s, subscription %d: %d response(s) appeared without the getter having been asked -- Subscribe no longer retrieves every header the way BlobSub.tla describes", sc.Name, sb.id, sb.unasked)
				continue
			}
			if sb.forced || !sb.closedSeen {
				continue
			}
			w := tf
			if sc.Relay {
				w = rf
				nRelayTraces++
			} else {
				nTraces++
			}
			for _, e := range sb.trace {
				b, _ := json.Marshal(e)
				w.Write(append(b, '\n'))
				nLines++
			}
		}
		if n%101 == 7 {
			rep.Sample(s.replay())
		}
	}
	tf.Close()
	rf.Close()
	rep.Set("trace_file", tracePath)
	rep.Set("traces", nTraces)
	rep.Set("trace_file_relay", relayPath)
	rep.Set("traces_relay", nRelayTraces)
	rep.Set("trace_lines", nLines)
}
