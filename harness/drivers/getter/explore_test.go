package getter

import (
	"encoding/json"
	"fmt"
	"os"
	"testing"

	"verifharness/vh"
)

// TestExplore runs a handful of hand-written cases and prints the outcomes (development aid).
func TestExplore(t *testing.T) {
	if os.Getenv("VERIF_EXPLORE") == "" {
		t.Skip()
	}
	rep := vh.NewReport()
	d := newDriver(t, rep)
	cases := []Case{
		{ID: "x3", Type: "range", W: 4, RangeRows: 1, Chain: []string{"store", "shrex", "bitswap"}, Items: [][]string{{}}, Bs: [][]string{{"correct"}}, Ctx: "deadline", CtxAt: "wall:1000"},
		{ID: "x4", Type: "row", Chain: []string{"shrex", "bitswap"}, Items: [][]string{{"badstatus", "silent"}}, Bs: [][]string{{}}, Ctx: "cancelled", CtxAt: "wall:1000"},
	}
	done := make(chan string, 64)
	for k := 0; k < 24; k++ {
		c := cases[k%2]
		c.ID = fmt.Sprintf("%s_%d", c.ID, k)
		go func() {
			o := d.runCase(c)
			b, _ := json.Marshal(o.Served)
			done <- c.ID + " " + string(b) + " " + fmt.Sprint(o.OK, o.Millis)
		}()
	}
	for k := 0; k < 24; k++ {
		t.Log(<-done)
	}
}
