package getter

import (
	"encoding/json"
	"os"
	"testing"

	"verifharness/vh"
)

// TestExplore runs a handful of hand-written cases and prints the outcomes (development aid).
func TestExplore(t *testing.T) {
	if os.Getenv("VERIF_EXPLORE") == "" {
		t.Skip()
	}
	rep := vh.NewReport()
	d := newDriver(t, rep)
	cases := []Case{
		{ID: "e1", Type: "samples", Chain: []string{"shrex"}, Items: [][]string{{"correct"}}},
		{ID: "e2", Type: "samples", Chain: []string{"shrex"}, Items: [][]string{{"other", "silent"}, {"correct"}}, Ctx: "deadline", CtxAt: "quiescent"},
		{ID: "e3", Type: "row", Chain: []string{"shrex"}, Items: [][]string{{"other", "silent"}}, Ctx: "deadline", CtxAt: "quiescent"},
		{ID: "e4", Type: "range", W: 4, RangeRows: 1, Chain: []string{"shrex"}, Items: [][]string{{"other:2", "correct"}}},
		{ID: "e5", Type: "nd", Chain: []string{"shrex"}, Items: [][]string{{"notfound", "notfound"}}, Ctx: "cancelled", CtxAt: "quiescent"},
		{ID: "e6", Type: "eds", Chain: []string{"shrex"}, Items: [][]string{{"trunc:1", "garble", "correct"}}},
		{ID: "e7", Type: "samples", Chain: []string{"bitswap"}, Bs: [][]string{{"other", "correct"}, {"garble"}}, BlockStore: "datastore", Ctx: "deadline", CtxAt: "quiescent"},
		{ID: "e8", Type: "samples", Chain: []string{"bitswap"}, Bs: [][]string{{"correct"}}, BlockStore: "edsstore"},
		{ID: "e9", Type: "samples", Chain: []string{"store", "shrex", "bitswap"}, Items: [][]string{{"notfound"}}, Bs: [][]string{{"correct"}}, BlockStore: "edsstore-cached", Ctx: "deadline", CtxAt: "wall:1500"},
		{ID: "e10", Type: "row", Chain: []string{"shrex", "bitswap"}, Items: [][]string{{"garble"}}, Bs: [][]string{{"correct"}}, BlockStore: "datastore", Ctx: "deadline", CtxAt: "wall:1500"},
	}
	for _, c := range cases {
		o := d.runCase(c)
		b, _ := json.Marshal(o)
		t.Logf("%s %s %v items=%v bs=%v ctx=%s/%s\n   -> %s", c.ID, c.Type, c.Chain, c.Items, c.Bs, c.Ctx, c.CtxAt, b)
	}
}
