package getter

import (
	"encoding/json"
	"fmt"
	"os"
	"path/filepath"
	"strings"
	"sync"
	"testing"

	"verifharness/vh"
)

// modelCase is a CASE record printed by spec/getter/Getter.tla (CaseRecord).
type modelCase struct {
	Type       string     `json:"type"`
	Chain      []string   `json:"chain"`
	Rows       int        `json:"rows"`
	StoreHas   bool       `json:"storeHas"`
	BlockStore string     `json:"blockstore"`
	Items      [][]string `json:"items"`
	Bs         [][]string `json:"bs"`
	Ctx        string     `json:"ctx"`
	Timing     string     `json:"timing"`
	UsedTO     bool       `json:"usedTimeout"`
	Panic      bool       `json:"panic"`
	OK         bool       `json:"ok"`
	Out        []string   `json:"out"`
}

// traceLine is one NDJSON line for spec/getter/GetterTrace.tla.
type traceLine struct {
	ID         string     `json:"id"`
	Type       string     `json:"type"`
	Rows       int        `json:"rows"`
	Chain      []string   `json:"chain"`
	StoreHas   bool       `json:"storeHas"`
	BlockStore string     `json:"blockstore"`
	Items      [][]string `json:"items"`
	Bs         [][]string `json:"bs"`
	Ctx        string     `json:"ctx"`
	Timing     string     `json:"timing"`
	OK         bool       `json:"ok"`
	Out        []string   `json:"out"`
	Panic      bool       `json:"panic"`
	Ato        bool       `json:"ato"` // per-attempt timeouts were possible while the caller waited
}

// fetchCase is a group of CASE records of spec/getter/BitswapFetch.tla with the same calls / offers.
type fetchCase struct {
	Calls  int `json:"calls"`
	Blocks int `json:"blocks"`
	Offers [][]struct {
		K string `json:"k"`
		E int    `json:"e"`
	} `json:"offers"`
	Allowed [][]string `json:"allowed"`
}

func fromFetchModel(i int, m fetchCase) Case {
	types := []string{"row", "range", "samples"}
	if m.Blocks == 2 {
		types = []string{"samples", "eds"}
	}
	c := Case{ID: fmt.Sprintf("f%d", i), Type: types[i%len(types)], Chain: []string{"bitswap"}, Overlap: m.Calls, W: 2,
		BlockStore: []string{"datastore", "edsstore"}[i%2], Ctx: "deadline", CtxAt: "quiescent", FetchAllowed: m.Allowed}
	staged := false
	for b, offers := range m.Offers {
		var first, all []string
		for j, o := range offers {
			k := o.K
			if k == "bad" {
				k = []string{"garble:0", "other:1"}[(i+b+j)%2]
			}
			if o.E < m.Calls {
				first = append(first, k)
				staged = true
			} else {
				all = append(all, k)
			}
		}
		c.Bs1 = append(c.Bs1, first)
		c.Bs = append(c.Bs, all)
	}
	if !staged {
		c.Bs1 = nil
	}
	return c
}

func has(xs []string, x string) bool {
	for _, y := range xs {
		if y == x {
			return true
		}
	}
	return false
}

func fromModel(i int, m modelCase) Case {
	c := Case{ID: fmt.Sprintf("m%d", i), Type: m.Type, Chain: m.Chain, Items: m.Items, Bs: m.Bs, StoreHas: m.StoreHas,
		BlockStore: m.BlockStore, RangeRows: m.Rows, W: 2}
	if m.Type == "range" {
		c.W = 4
	}
	if !has(m.Chain, "shrex") {
		c.Items = nil
	}
	if !has(m.Chain, "bitswap") {
		c.Bs = nil
	}
	if has(m.Chain, "bitswap") && m.Type == "eds" {
		c.W = 1 // one row block: the model's blocks and the request's items coincide
	}
	if m.Ctx != "live" {
		c.Ctx = m.Ctx
	}
	if m.UsedTO {
		// an attempt times out while the caller still waits: needs the real clock. With a 3 s deadline
		// and a 250 ms floor the getter gives a silent peer 1 s, then the next peer is tried.
		c.AttemptTimeoutMs = 250
		c.CtxAt = "wall:3000"
		c.Ctx = "deadline"
		return c
	}
	switch {
	case len(m.Chain) > 1:
		// a cascade hands every getter a share of the remaining time: only a real clock can end
		// the shrex getter's turn while the caller is still waiting
		c.CtxAt = "wall:1000"
		if c.Ctx == "" {
			c.Ctx = "deadline"
		}
		if m.Timing == "start" {
			c.CtxAt = "start"
		}
	case m.Timing == "start":
		c.CtxAt = "start"
	case m.Timing == "quiescent":
		c.CtxAt = "quiescent"
	default:
		c.CtxAt = ""
	}
	return c
}

// seededCases: fault sequences beyond the model's bounds (longer, three parallel items, other square
// widths, black-listing switched on, wall-clock deadlines that end the call at arbitrary points).
func seededCases(seed int64, n int) []Case {
	rng := seeded(seed, "seeded-cases")
	kinds := []string{"correct", "other", "trunc", "ext", "garble", "emptyok", "notfound", "internal", "badstatus", "reset", "silent"}
	bsKinds := []string{"correct", "other", "trunc", "ext", "garble"}
	types := []string{"samples", "row", "eds", "nd", "range"}
	var out []Case
	for i := 0; i < n; i++ {
		c := Case{ID: fmt.Sprintf("s%d", i), Type: types[rng.Intn(len(types))], W: []int{1, 2, 2, 4, 4}[rng.Intn(5)],
			Blacklisting: rng.Intn(4) == 0}
		nItems := 1
		if c.Type == "samples" {
			nItems = 1 + rng.Intn(3)
		}
		seq := func(ks []string, allowSilent bool) []string {
			l := 1 + rng.Intn(6)
			if nItems == 2 {
				l = 1 + rng.Intn(3)
			} else if nItems >= 3 {
				l = 1 + rng.Intn(2)
			}
			var s []string
			for j := 0; j < l; j++ {
				k := ks[rng.Intn(len(ks))]
				if k == "silent" && (!allowSilent || j < l-1) {
					k = "notfound"
				}
				if rng.Intn(3) == 0 && payloadKinds[k] && k != "correct" {
					k = fmt.Sprintf("%s:%d", k, rng.Intn(3))
				}
				s = append(s, k)
			}
			return s
		}
		switch rng.Intn(10) {
		case 0, 1, 2, 3, 4, 5: // shrex getter alone
			c.Chain = []string{"shrex"}
			for j := 0; j < nItems; j++ {
				c.Items = append(c.Items, seq(kinds, true))
			}
			switch rng.Intn(4) {
			case 0:
				c.Ctx, c.CtxAt = "deadline", fmt.Sprintf("wall:%d", 20+rng.Intn(200))
			case 1:
				c.Ctx, c.CtxAt = "cancelled", "quiescent"
			default:
				c.Ctx, c.CtxAt = "deadline", "quiescent"
			}
		case 6, 7: // bitswap getter alone, every block store
			c.Chain = []string{"bitswap"}
			c.BlockStore = []string{"datastore", "edsstore", "edsstore-cached"}[rng.Intn(3)]
			if c.Type == "eds" {
				c.W = 1
			}
			for j := 0; j < nItems; j++ {
				c.Bs = append(c.Bs, seq(bsKinds, false))
			}
			c.Ctx, c.CtxAt = "deadline", "quiescent"
		default: // cascades
			c.Chain = [][]string{{"shrex", "bitswap"}, {"store", "shrex", "bitswap"}}[rng.Intn(2)]
			c.BlockStore = "datastore"
			if len(c.Chain) == 3 {
				c.BlockStore = []string{"edsstore", "edsstore-cached"}[rng.Intn(2)]
				c.StoreHas = rng.Intn(4) == 0
			}
			if c.Type == "eds" {
				c.W = 1
			}
			for j := 0; j < nItems; j++ {
				sq := seq(kinds, true)
				c.Items = append(c.Items, sq[:min(len(sq), 1+rng.Intn(2))])
				c.Bs = append(c.Bs, seq(bsKinds, false))
			}
			c.Ctx, c.CtxAt = "deadline", fmt.Sprintf("wall:%d", 400+rng.Intn(600))
		}
		out = append(out, c)
	}
	return out
}

// overlapCases: one, two or three calls of the bitswap getter for the same identifiers at the same time, for
// every request type and every block store: nothing is ever delivered (every call must fail, none may
// come back empty-handed without an error), everything is delivered (every call must come back
// complete), and bad candidates first.
func overlapCases(seed int64) []Case {
	rng := seeded(seed, "overlap-cases")
	var out []Case
	n := 0
	for _, typ := range []string{"samples", "row", "eds", "nd", "range"} {
		for _, offers := range [][]string{{}, {"correct"}, {"garble:0", "correct"}, {"other:1", "correct"}, {"garble:0", "garble:0"}, {"other:1", "other:1"}} {
			for _, k := range []int{1, 2, 3} {
				n++
				c := Case{ID: fmt.Sprintf("o%d", n), Type: typ, Chain: []string{"bitswap"}, Overlap: k, W: 2,
					BlockStore: []string{"datastore", "edsstore", "edsstore-cached"}[rng.Intn(3)], Ctx: "deadline", CtxAt: "quiescent"}
				items := 1
				if typ == "samples" {
					items = 1 + rng.Intn(2)
				}
				if typ == "eds" {
					c.W = []int{1, 2}[rng.Intn(2)]
					items = c.W
				}
				if typ == "nd" {
					items = 2 // rows the namespace may touch; surplus scripts are ignored
				}
				for i := 0; i < items; i++ {
					c.Bs = append(c.Bs, append([]string(nil), offers...))
				}
				out = append(out, c)
			}
		}
	}
	// a later call joins while the first one already holds some of its blocks and waits for the rest:
	// the block the first call got is asked for again by the second one, and answered honestly or badly
	for _, typ := range []string{"samples", "eds"} {
		for _, second := range [][]string{{"correct"}, {"garble:0"}, {"other:1"}, {"garble:0", "correct"}} {
			n++
			c := Case{ID: fmt.Sprintf("o%d", n), Type: typ, Chain: []string{"bitswap"}, Overlap: 2, W: 2, BlockStore: "datastore",
				Ctx: "deadline", CtxAt: "quiescent",
				Bs1: [][]string{{"correct"}, {}}, Bs: [][]string{second, {}}}
			out = append(out, c)
		}
	}
	// an honest block followed by a bad message for the same CID while the call still waits for another block
	for _, k := range []int{1, 2} {
		for _, bad := range []string{"garble:0", "other:1"} {
			n++
			out = append(out, Case{ID: fmt.Sprintf("o%d", n), Type: "eds", Chain: []string{"bitswap"}, Overlap: k, W: 2, BlockStore: "datastore",
				Ctx: "deadline", CtxAt: "quiescent", Bs1: [][]string{{"correct", bad}, {}}, Bs: [][]string{{}, {"correct"}}})
			n++
			out = append(out, Case{ID: fmt.Sprintf("o%d", n), Type: "samples", Chain: []string{"bitswap"}, Overlap: k, W: 2, BlockStore: "datastore",
				Ctx: "deadline", CtxAt: "quiescent", Bs1: [][]string{{"correct", bad}, {}}, Bs: [][]string{{}, {"correct"}}})
		}
	}
	return out
}

func kindOfLabel(l string) string {
	if i := strings.IndexByte(l, '@'); i >= 0 {
		l = l[:i]
	}
	if i := strings.IndexByte(l, '/'); i >= 0 {
		return l[:i]
	}
	return l
}

func chainName(c Case) string { return strings.Join(c.Chain, "+") }

// judge applies the property to one observed call. Every alarm comes from what the real code returned.
func (d *driver) judge(c Case, o Outcome, keys []string) {
	rep := d.rep
	where := chainName(c) + "/" + c.Type
	replay := map[string]any{"case": c, "outcome": o}
	if o.Panic != "" {
		sig := "C06/" + where + "/panic"
		if strings.Contains(o.Panic, "(*Blockstore).Put") {
			sig = "C06/" + where + "/panic-in-blockstore-put/" + c.BlockStore
		}
		rep.Violate(sig, "the call panicked: "+firstLine(o.Panic), replay)
		return
	}
	if o.Hung {
		rep.Violate("C06/"+where+"/call-did-not-return", "no result 90 s after the call (context ended: "+c.Ctx+"/"+c.CtxAt+")", replay)
		return
	}
	for i, cl := range o.Items {
		if cl == "bad" {
			how := "next-to-error"
			if o.OK {
				how = "as-success"
			}
			rep.Violate("C06/"+where+"/unverified-data-returned-"+how,
				fmt.Sprintf("item %d of the returned value fails the oracle (%s); peers served %v; err=%q", i, strings.Join(o.Why, "; "), o.Served, o.Err), replay)
		}
		if cl == "empty" && o.OK {
			rep.Violate("C06/"+where+"/success-with-missing-data",
				fmt.Sprintf("the call returned no error but item %d is empty; peers served %v", i, o.Served), replay)
		}
		if cl != "empty" && !o.OK && len(c.Chain) > 1 {
			rep.Violate("C06/"+where+"/cascade-partial-result",
				fmt.Sprintf("the cascade returned an error together with a non-empty item %d (%s)", i, cl), replay)
		}
	}
	wall := strings.HasPrefix(c.CtxAt, "wall:")
	if len(c.Chain) == 1 && c.Chain[0] == "shrex" && !wall && c.CtxAt != "start" {
		// a bad answer cannot make a later correct one fail: an item that was served the honest
		// payload and asked again afterwards has rejected it
		for i, k := range keys {
			sv := o.Served[k]
			for j, kind := range sv {
				if kind == "correct" && j < len(sv)-1 && i < len(o.Items) && o.Items[i] != "good" {
					rep.Violate("C06/"+where+"/correct-answer-rejected-after-"+strings.Join(sv[:j], "-"),
						fmt.Sprintf("item %d was served the honest payload as answer %d and asked the next peer; served %v; err=%q", i, j+1, sv, o.Err), replay)
					break
				}
			}
		}
		// "not found" stays "not found"
		// (GetSamples reports the first failing item's error only, so every item must have met it)
		onlyNF, sawNF := true, true
		for _, k := range keys {
			saw := false
			for _, kind := range o.Served[k] {
				if kind == "notfound" {
					saw = true
				} else if kind != "silent" {
					onlyNF = false
				}
			}
			sawNF = sawNF && saw
		}
		if onlyNF && sawNF && (o.OK || !o.IsNF || o.IsBadRsp || o.IsVerify) {
			rep.Violate("C06/"+where+"/notfound-misreported",
				fmt.Sprintf("every peer answered NOT_FOUND, the call returned ok=%v isNotFound=%v invalidResponse=%v failedVerification=%v err=%q",
					o.OK, o.IsNF, o.IsBadRsp, o.IsVerify, o.Err), replay)
		}
	}
	if len(c.Chain) == 1 && c.Chain[0] == "bitswap" && !wall && c.CtxAt != "start" {
		for idx, labels := range o.BsServed {
			var i int
			fmt.Sscan(idx, &i)
			for _, l := range labels {
				if l == "correct" && i < len(o.Items) && c.Type == "samples" && o.Items[i] != "good" {
					rep.Violate("C06/"+where+"/honest-block-not-accepted",
						fmt.Sprintf("block %d was offered the honest bytes and the item came back %s; offered %v", i, o.Items[i], labels), replay)
				}
			}
		}
	}
}

// judgeOverlap: what is demanded of a call that overlapped with another call for the same identifiers.
// When every block was offered honestly, every one of the calls must come back complete.
func (d *driver) judgeOverlap(c Case, o Outcome, k int) {
	if o.Panic != "" || o.Hung {
		return
	}
	// an honest candidate that arrives while the call wants the block satisfies that want; candidates
	// that do not verify never do. So: the first call is complete iff every block was offered honestly in
	// either round, a call that joined later iff that happened after it joined.
	allCorrect := len(c.Bs) > 0
	for i := range c.Bs {
		offers := append([]string(nil), c.Bs[i]...)
		if k == 0 && i < len(c.Bs1) {
			offers = append(offers, c.Bs1[i]...)
		}
		if !has(offers, "correct") {
			allCorrect = false
		}
	}
	if allCorrect && !o.OK {
		d.rep.Violate("C06/bitswap/"+c.Type+"/overlapping-call-starved",
			fmt.Sprintf("call %d of %d overlapping calls was offered every block honestly and failed: %s", k+1, c.Overlap, o.Err),
			map[string]any{"case": c, "outcome": o})
	}
}

func firstLine(s string) string {
	if i := strings.IndexByte(s, '\n'); i >= 0 {
		return s[:i]
	}
	return s
}

// toTrace turns the observation into a line for GetterTrace.tla (nil when the case has no
// counterpart in the model, e.g. a request whose bitswap form has several blocks but one shrex item).
func toTrace(c Case, o Outcome, keys []string, ctxState string) *traceLine {
	if o.Hung {
		return nil
	}
	n := len(keys)
	bs := make([][]string, 0)
	maxIdx := -1
	for idx := range o.BsServed {
		var i int
		fmt.Sscan(idx, &i)
		if i > maxIdx {
			maxIdx = i
		}
	}
	if maxIdx+1 > n {
		if c.Type != "samples" {
			return nil
		}
		n = maxIdx + 1
	}
	items := make([][]string, n)
	for i := range items {
		items[i] = []string{}
		if i < len(keys) && has(c.Chain, "shrex") {
			items[i] = append(items[i], o.Served[keys[i]]...)
		}
	}
	for i := 0; i < n; i++ {
		row := []string{}
		for _, l := range o.BsServed[fmt.Sprint(i)] {
			row = append(row, kindOfLabel(l))
		}
		bs = append(bs, row)
	}
	out := make([]string, n)
	for i := range out {
		switch {
		case i < len(o.Items):
			out[i] = o.Items[i]
		case len(o.Items) > 0 && c.Type != "samples":
			out[i] = o.Items[0]
		default:
			out[i] = "empty"
		}
	}
	timing := "none"
	switch {
	case strings.HasPrefix(c.CtxAt, "wall:"):
		timing = "wall"
	case c.CtxAt == "start":
		timing = "start"
	case ctxState != "live" && o.HeldAll:
		timing = "quiescent"
	case ctxState != "live":
		timing = "wall" // ended during the grace period of an item that was about to succeed, or by the safety net
	}
	rows := c.RangeRows
	if rows == 0 || c.Type != "range" {
		rows = 1
	}
	bstore := c.BlockStore
	if bstore == "" || !(has(c.Chain, "bitswap") && c.Type == "samples") {
		bstore = "datastore"
	}
	if bstore == "edsstore-cached" {
		bstore = "edsstore"
	}
	return &traceLine{ID: c.ID, Type: c.Type, Rows: rows, Chain: c.Chain, StoreHas: c.StoreHas && has(c.Chain, "store"),
		BlockStore: bstore, Items: items, Bs: bs, Ctx: ctxState, Timing: timing, OK: o.OK, Out: out, Panic: o.Panic != "",
		Ato: c.AttemptTimeoutMs > 0}
}

func TestDriver(t *testing.T) {
	rep := vh.NewReport()
	defer func() {
		if err := rep.Write(); err != nil {
			t.Fatalf("report: %v", err)
		}
	}()
	d := newDriver(t, rep)

	var cases []Case
	if p := os.Getenv("VERIF_CASES"); p != "" {
		var ms []modelCase
		if err := vh.ReadJSON(p, &ms); err != nil {
			t.Fatalf("cases: %v", err)
		}
		for i, m := range ms {
			cases = append(cases, fromModel(i, m))
		}
	}
	rep.Count("cases_from_model", int64(len(cases)))
	nSeeded := vh.EnvInt("VERIF_SEEDED", 150)
	sc := seededCases(d.seed, nSeeded)
	rep.Count("cases_seeded", int64(len(sc)))
	cases = append(cases, sc...)
	if p := os.Getenv("VERIF_FETCH_CASES"); p != "" {
		var fs []fetchCase
		if err := vh.ReadJSON(p, &fs); err != nil {
			t.Fatalf("fetch cases: %v", err)
		}
		for i, f := range fs {
			cases = append(cases, fromFetchModel(i, f))
		}
		rep.Count("cases_from_fetch_model", int64(len(fs)))
	}
	oc := overlapCases(d.seed)
	rep.Count("cases_overlap", int64(len(oc)))
	cases = append(cases, oc...)

	tracePath := filepath.Join(vh.WorkDir(), "getter_trace.ndjson")
	tf, err := os.Create(tracePath)
	if err != nil {
		t.Fatalf("trace file: %v", err)
	}
	defer tf.Close()
	var tmu sync.Mutex
	traceLines := 0

	workers := vh.EnvInt("VERIF_PAR", 12)
	ch := make(chan Case)
	var wg sync.WaitGroup
	one := func(c Case) {
		{
			{
				var (
					o        Outcome
					keys     []string
					ctxState string
					aborted  bool
				)
				func() {
					defer func() {
						if r := recover(); r != nil {
							he, ok := r.(harnessErr)
							if !ok {
								panic(r)
							}
							rep.Inconclusivef("harness: %s", he.msg)
							aborted = true
						}
					}()
					if c.Overlap >= 1 {
						outs, _ := d.runOverlap(c)
						if len(c.FetchAllowed) > 0 {
							got := make([]string, len(outs))
							clean := true
							for k, ov := range outs {
								got[k] = "err"
								if ov.OK {
									got[k] = "nil"
								}
								if ov.Panic != "" || ov.Hung {
									clean = false
								}
								for _, it := range ov.Items {
									if it == "bad" || (ov.OK && it != "good") {
										clean = false // the oracle reports this one
									}
								}
							}
							match := false
							for _, a := range c.FetchAllowed {
								if strings.Join(a, ",") == strings.Join(got, ",") {
									match = true
								}
							}
							rep.Count("fetch_model_cases", 1)
							if !match && clean {
								b, _ := json.Marshal(c)
								rep.Inconclusivef("conformance drift: overlapping bitswap calls returned %v, BitswapFetch.tla allows %v: %s", got, c.FetchAllowed, b)
							}
						}
						for k, ov := range outs {
							cc := c
							cc.ID = fmt.Sprintf("%s/call%d", c.ID, k+1)
							d.judge(cc, ov, nil)
							d.judgeOverlap(cc, ov, k)
							rep.Count("overlapping_calls", 1)
							if ov.OK {
								rep.Count("overlapping_calls_ok", 1)
							}
						}
						aborted = true // judged here; no trace line (no counterpart in Getter.tla)
						return
					}
					o, keys, ctxState = d.runCaseFull(c)
				}()
				if aborted {
					return
				}
				d.judge(c, o, keys)
				rep.Count("calls", 1)
				rep.Count("calls_"+c.Type, 1)
				rep.Count("calls_chain_"+chainName(c), 1)
				if has(c.Chain, "bitswap") {
					rep.Count("calls_blockstore_"+c.BlockStore, 1)
				}
				if o.OK {
					rep.Count("returned_ok", 1)
				} else {
					rep.Count("returned_err", 1)
				}
				for _, cl := range o.Items {
					rep.Count("items_"+cl, 1)
				}
				if o.Fallback {
					rep.Count("ctx_safety_net_used", 1)
				}
				decodedBad := false
				for _, k := range keys {
					for _, kind := range o.Served[k] {
						rep.Count("served_"+kind, 1)
						if kind == "other" || kind == "garble" || kind == "ext" || kind == "trunc" {
							decodedBad = true
						}
					}
				}
				for _, ls := range o.BsServed {
					for _, l := range ls {
						rep.Count("bs_offered_"+kindOfLabel(l), 1)
					}
				}
				if decodedBad && !o.OK && has(c.Chain, "shrex") {
					rep.Count("error_path_after_bad_payload", 1)
				}
				if tl := toTrace(c, o, keys, ctxState); tl != nil {
					b, _ := json.Marshal(tl)
					tmu.Lock()
					tf.Write(append(b, '\n')) //nolint:errcheck
					traceLines++
					tmu.Unlock()
				} else {
					rep.Count("calls_without_model_counterpart", 1)
				}
				if os.Getenv("VERIF_DEBUG") != "" {
					for _, sv := range o.Served {
						if len(sv) >= 2 && sv[len(sv)-1] == "silent" && sv[len(sv)-2] == "silent" {
							b, _ := json.Marshal(map[string]any{"case": c, "outcome": o})
							fmt.Println("DOUBLE", string(b))
						}
					}
				}
				if c.ID == "m0" || c.ID == "s0" || c.ID == "m7" || c.ID == "s3" {
					rep.Sample(map[string]any{"case": c, "outcome": o})
				}
			}
		}
	}
	for w := 0; w < workers; w++ {
		wg.Add(1)
		go func() {
			defer wg.Done()
			for c := range ch {
				one(c)
			}
		}()
	}
	// black-listing closes the connection to the peer: those cases get a network of their own and run
	// one at a time, so that they cannot disturb the streams of other cases
	chBL := make(chan Case, len(cases))
	for _, c := range cases {
		if c.Blacklisting {
			chBL <- c
		}
	}
	close(chBL)
	wg.Add(1)
	go func() {
		defer wg.Done()
		for c := range chBL {
			one(c)
		}
	}()
	for _, c := range cases {
		if !c.Blacklisting {
			ch <- c
		}
	}
	close(ch)
	wg.Wait()
	rep.Set("trace", tracePath)
	rep.Set("trace_lines", traceLines)
	rep.Set("cases", len(cases))
}
