// Package getter is the C06 driver: the real shrex getter / client, the real bitswap getter and the
// real cascade, run against scripted misbehaving peers on an in-process libp2p mock network.
package getter

import (
	"context"
	"fmt"
	"io"
	"math/rand"
	"sync"
	"testing"
	"time"

	"github.com/ipfs/go-datastore"
	ds_sync "github.com/ipfs/go-datastore/sync"
	"github.com/libp2p/go-libp2p/core/host"
	"github.com/libp2p/go-libp2p/core/network"
	"github.com/libp2p/go-libp2p/p2p/net/conngater"
	mocknet "github.com/libp2p/go-libp2p/p2p/net/mock"

	"github.com/celestiaorg/go-libp2p-messenger/serde"

	"github.com/celestiaorg/celestia-node/share/shwap"
	"github.com/celestiaorg/celestia-node/share/shwap/p2p/shrex"
	shrexpb "github.com/celestiaorg/celestia-node/share/shwap/p2p/shrex/pb"
	"github.com/celestiaorg/celestia-node/share/shwap/p2p/shrex/peers"

	"verifharness/shx"
)

const networkID = "verif"

// answer is one scripted reaction of a hostile peer to one request.
type answer struct {
	Kind    string // correct other trunc ext garble emptyok notfound internal badstatus reset silent
	Label   string // the concrete variant used (e.g. trunc/last-unit)
	Payload []byte // bytes after the OK status, for payload kinds
}

var payloadKinds = map[string]bool{"correct": true, "other": true, "trunc": true, "ext": true, "garble": true, "emptyok": true}

// script is the per-case state the hostile peers consult: for every key (sample coordinate, or ""
// for single-item requests) the answers still to be given, and a record of what was served.
type script struct {
	mu      sync.Mutex
	ref     *shx.Ref
	queue   map[string][]answer
	served  map[string][]string
	at      map[string][]int64 // milliseconds since the case started, per served answer
	t0      time.Time
	silent  map[string]bool // keys whose current request is being held silently
	onEvent func()          // called (without the lock) after every served answer / silence start
	release chan struct{}   // closed when the case is over: silent handlers let go
}

func (s *script) next(key string) answer {
	s.mu.Lock()
	defer s.mu.Unlock()
	q := s.queue[key]
	if s.at == nil {
		s.at = map[string][]int64{}
	}
	s.at[key] = append(s.at[key], time.Since(s.t0).Milliseconds())
	if len(q) == 0 {
		// beyond the script every peer is silent
		s.served[key] = append(s.served[key], "silent")
		s.silent[key] = true
		return answer{Kind: "silent", Label: "silent/beyond-script"}
	}
	a := q[0]
	s.queue[key] = q[1:]
	s.served[key] = append(s.served[key], a.Kind)
	if a.Kind == "silent" {
		s.silent[key] = true
	}
	return a
}

func (s *script) snapshot() (served map[string][]string, silent map[string]bool, left int) {
	s.mu.Lock()
	defer s.mu.Unlock()
	served = map[string][]string{}
	for k, v := range s.served {
		served[k] = append([]string(nil), v...)
	}
	silent = map[string]bool{}
	for k, v := range s.silent {
		silent[k] = v
	}
	for _, q := range s.queue {
		left += len(q)
	}
	return
}

// hostileNet is one mock network: one client host and a crowd of scripted peers that register stream
// handlers under the real shrex protocol IDs.
type hostileNet struct {
	client  host.Host
	hostile []host.Host
	shrex   *shrex.Client
	scripts sync.Map // height (uint64) -> *script
}

type wireReq interface {
	io.ReaderFrom
	Name() string
	Height() uint64
}

func newHostileNet(t testing.TB, nPeers int) *hostileNet {
	mn, err := mocknet.FullMeshConnected(nPeers + 1)
	if err != nil {
		t.Fatalf("mocknet: %v", err)
	}
	hs := mn.Hosts()
	hn := &hostileNet{client: hs[0], hostile: hs[1:]}
	params := shrex.DefaultClientParameters()
	params.WithNetworkID(networkID)
	hn.shrex, err = shrex.NewClient(params, hn.client)
	if err != nil {
		t.Fatalf("shrex client: %v", err)
	}
	mk := []func() wireReq{
		func() wireReq { return &shwap.SampleID{} },
		func() wireReq { return &shwap.RowID{} },
		func() wireReq { return &shwap.EdsID{} },
		func() wireReq { return &shwap.NamespaceDataID{} },
		func() wireReq { return &shwap.RangeNamespaceDataID{} },
	}
	for _, h := range hn.hostile {
		for _, f := range mk {
			f := f
			h.SetStreamHandler(shrex.ProtocolID(networkID, f().Name()), func(s network.Stream) { hn.handle(s, f()) })
		}
	}
	return hn
}

func keyOf(id wireReq) string {
	if sid, ok := id.(*shwap.SampleID); ok {
		return fmt.Sprintf("%d,%d", sid.RowIndex, sid.ShareIndex)
	}
	return ""
}

// handle is the hostile peer: it reads the request with the real ID decoder, finds the case by
// height and plays the next scripted answer for that request.
func (hn *hostileNet) handle(s network.Stream, id wireReq) {
	if _, err := id.ReadFrom(s); err != nil {
		_ = s.Reset()
		return
	}
	v, ok := hn.scripts.Load(id.Height())
	if !ok {
		_ = s.Reset()
		return
	}
	sc := v.(*script)
	a := sc.next(keyOf(id))
	defer func() {
		if sc.onEvent != nil {
			sc.onEvent()
		}
	}()
	switch {
	case payloadKinds[a.Kind]:
		if _, err := serde.Write(s, &shrexpb.Response{Status: shrexpb.Status_OK}); err != nil {
			_ = s.Reset()
			return
		}
		if len(a.Payload) > 0 {
			if _, err := s.Write(a.Payload); err != nil {
				_ = s.Reset()
				return
			}
		}
		_ = s.Close()
	case a.Kind == "notfound":
		_, _ = serde.Write(s, &shrexpb.Response{Status: shrexpb.Status_NOT_FOUND})
		_ = s.Close()
	case a.Kind == "internal":
		_, _ = serde.Write(s, &shrexpb.Response{Status: shrexpb.Status_INTERNAL})
		_ = s.Close()
	case a.Kind == "badstatus":
		_, _ = serde.Write(s, &shrexpb.Response{Status: shrexpb.Status_INVALID})
		_ = s.Close()
	case a.Kind == "reset":
		_ = s.Reset()
	case a.Kind == "silent":
		if sc.onEvent != nil {
			sc.onEvent()
		}
		select {
		case <-sc.release:
		case <-time.After(2 * time.Minute):
		}
		_ = s.Reset()
	default:
		_ = s.Reset()
	}
}

// newManager builds a real peers.Manager fed through UpdateNodePool with every hostile peer. The
// cool-down is far longer than any case, so a cooled-down peer never comes back during a case and
// every attempt meets a fresh peer (and the cool-down timer machinery, which is C17's subject, stays
// out of the picture).
func (hn *hostileNet) newManager(t testing.TB, tag string, blacklisting bool) *peers.Manager {
	gater, err := conngater.NewBasicConnectionGater(ds_sync.MutexWrap(datastore.NewMapDatastore()))
	if err != nil {
		bail("gater: %v", err)
	}
	p := *peers.DefaultParameters()
	p.PeerCooldown = time.Hour
	p.EnableBlackListing = blacklisting
	m, err := peers.NewManager(p, hn.client, gater, tag)
	if err != nil {
		bail("peer manager: %v", err)
	}
	for _, h := range hn.hostile {
		m.UpdateNodePool(h.ID(), true)
	}
	return m
}

// manualCtx is a context whose end the harness triggers itself (no wall clock): it reports a
// deadline far enough away that the code under test never derives shorter timers from it, and it
// ends as "deadline exceeded" or "cancelled" exactly when the harness says so.
type manualCtx struct {
	context.Context
	deadline time.Time
	done     chan struct{}
	once     sync.Once
	mu       sync.Mutex
	err      error
}

func newManualCtx() *manualCtx {
	return &manualCtx{Context: context.Background(), deadline: time.Now().Add(50 * time.Second), done: make(chan struct{})}
}

func (c *manualCtx) Deadline() (time.Time, bool) { return c.deadline, true }
func (c *manualCtx) Done() <-chan struct{}       { return c.done }
func (c *manualCtx) Err() error {
	c.mu.Lock()
	defer c.mu.Unlock()
	return c.err
}

func (c *manualCtx) end(cause string) {
	c.once.Do(func() {
		c.mu.Lock()
		if cause == "cancelled" {
			c.err = context.Canceled
		} else {
			c.err = context.DeadlineExceeded
		}
		c.mu.Unlock()
		close(c.done)
	})
}

func seeded(seed int64, salt string) *rand.Rand {
	h := int64(1469598103934665603)
	for _, c := range salt {
		h = (h ^ int64(c)) * 1099511628211
	}
	return rand.New(rand.NewSource(seed ^ h))
}
