package getter

import (
	"bytes"
	"context"
	"errors"
	"fmt"
	"sort"
	"strconv"
	"strings"
	"sync"
	"sync/atomic"
	"testing"
	"time"

	"github.com/celestiaorg/rsmt2d"

	"github.com/celestiaorg/celestia-node/share/availability"
	"github.com/celestiaorg/celestia-node/share/shwap"
	"github.com/celestiaorg/celestia-node/share/shwap/getters"
	"github.com/celestiaorg/celestia-node/share/shwap/p2p/bitswap"
	"github.com/celestiaorg/celestia-node/share/shwap/p2p/shrex"
	"github.com/celestiaorg/celestia-node/share/shwap/p2p/shrex/shrex_getter"
	"github.com/celestiaorg/celestia-node/store"

	"verifharness/shx"
	"verifharness/vh"
)

// Case is one behaviour of spec/getter/Getter.tla made concrete: which request, which getters in
// which order, what every peer answers (per item, in order), and how the caller's context ends.
type Case struct {
	ID    string   `json:"id"`
	Type  string   `json:"type"`  // samples row eds nd range
	Chain []string `json:"chain"` // shrex | bitswap | store, in cascade order (one element: the getter itself)
	// Items[i] is the sequence of peer answers item i meets in the shrex getter ("kind" or
	// "kind:variant"); after it every peer is silent.
	Items [][]string `json:"items"`
	// Bs[i] is the sequence of blocks the exchange offers for block i of the bitswap getter; after it
	// nothing arrives.
	Bs         [][]string `json:"bs,omitempty"`
	BlockStore string     `json:"blockstore,omitempty"` // datastore | edsstore | edsstore-cached
	StoreHas   bool       `json:"storeHas,omitempty"`   // the local store holds the block
	// Ctx: "" the caller's context outlives the call; "deadline"/"cancelled" it ends that way.
	Ctx string `json:"ctx,omitempty"`
	// CtxAt: "start" (already over when the call starts), "quiescent" (ends once every item is either
	// finished or waiting on a silent peer; triggered by the harness, no wall clock), "wall:<ms>"
	// (a real deadline; only the safety oracle applies).
	CtxAt string `json:"ctxAt,omitempty"`
	W     int    `json:"w,omitempty"`
	// RangeRows steers the requested range (1: inside one row, 2: spans rows, 0: any).
	RangeRows    int  `json:"rangeRows,omitempty"`
	Blacklisting bool `json:"blacklisting,omitempty"`
	// Overlap >= 1: candidates are scripted per CID and hashed once, like the Bitswap client does; > 1: that many calls of the bitswap getter for the same request run at the same time (the
	// later ones enter while the first is waiting for its blocks).
	Overlap int `json:"overlap,omitempty"`
	// Bs1: candidates that arrive while only the FIRST of the overlapping calls is waiting (per block);
	// Bs then arrive when all calls are waiting.
	Bs1 [][]string `json:"bs1,omitempty"`
	// AttemptTimeoutMs > 0: the shrex getter's minimal per-attempt timeout is lowered to this value
	// (verif hook), so that a silent peer costs one attempt, not the whole call.
	AttemptTimeoutMs int `json:"attemptTimeoutMs,omitempty"`
	// FetchAllowed: for cases generated from BitswapFetch.tla, the return vectors ("nil"/"err" per call)
	// the specification allows for these offers.
	FetchAllowed [][]string `json:"fetchAllowed,omitempty"`
	// Expect is the model's verdict for this behaviour (nil for seeded cases beyond the model's bounds).
	Expect *Expect `json:"expect,omitempty"`
}

// Expect lists, per item, the outcomes the specification allows, and whether the call succeeds.
type Expect struct {
	OK    []bool     `json:"ok"`    // allowed values of "returned without error"
	Items [][]string `json:"items"` // allowed classes per item: good | empty | bad
}

// Outcome is what the real call did.
type Outcome struct {
	OK       bool                `json:"ok"`
	Err      string              `json:"err,omitempty"`
	Items    []string            `json:"items"` // good | empty | bad, per item of the returned value
	Why      []string            `json:"why,omitempty"`
	Panic    string              `json:"panic,omitempty"`
	Hung     bool                `json:"hung,omitempty"`
	Served   map[string][]string `json:"served,omitempty"`
	ServedAt map[string][]int64  `json:"servedAtMs,omitempty"`
	BsServed map[string][]string `json:"bsServed,omitempty"`
	Reqs     []string            `json:"reqs"`
	IsNF     bool                `json:"isNotFound,omitempty"`
	IsBadRsp bool                `json:"isInvalidResponse,omitempty"`
	IsVerify bool                `json:"isFailedVerification,omitempty"`
	HeldAll  bool                `json:"heldAll,omitempty"` // every unfinished item was waiting on a silent peer when the context ended
	Fallback bool                `json:"fallback,omitempty"`
	Millis   int64               `json:"ms"`
}

type driver struct {
	t      *testing.T
	rep    *vh.Report
	seed   int64
	hn     *hostileNet
	hnBL   *hostileNet        // for cases with black-listing on: closing a peer's connection must not hit other cases
	refs   map[int][]*shx.Ref // by width: [mixed layout, uniform layout, another square of the same width]
	height atomic.Uint64
	st     *store.Store
	cached *store.CachedStore
	stMu   sync.Mutex
}

func newDriver(t *testing.T, rep *vh.Report) *driver {
	d := &driver{t: t, rep: rep, seed: vh.Seed(), refs: map[int][]*shx.Ref{}}
	d.hn = newHostileNet(t, 20)
	d.hnBL = newHostileNet(t, 20)
	d.height.Store(1000)
	for _, w := range []int{1, 2, 4, 8} {
		rng := seeded(d.seed, fmt.Sprintf("sq%d", w))
		pad := 0
		if w >= 2 {
			pad = 1 + rng.Intn(w-1)
		}
		d.refs[w] = []*shx.Ref{
			shx.Build(t, rng, w, 1, shx.Layout(rng, w, 4, pad)),
			shx.Build(t, rng, w, 1, shx.UniformLayout(w)),
			shx.Build(t, rng, w, 1, shx.Layout(rng, w, 4, 0)),
		}
	}
	var err error
	d.st, err = store.NewStore(store.DefaultParameters(), t.TempDir())
	if err != nil {
		t.Fatalf("store: %v", err)
	}
	t.Cleanup(func() { _ = d.st.Stop(context.Background()) })
	d.cached, err = d.st.WithCache("blockstore", 128)
	if err != nil {
		t.Fatalf("store with cache: %v", err)
	}
	return d
}

// harnessErr aborts one case because the harness (not the code under test) could not do its job.
type harnessErr struct{ msg string }

func bail(format string, a ...any) { panic(harnessErr{fmt.Sprintf(format, a...)}) }

func splitKind(s string) (string, int) {
	if i := strings.IndexByte(s, ':'); i >= 0 {
		v, _ := strconv.Atoi(s[i+1:])
		return s[:i], v
	}
	return s, -1
}

// concretise picks the concrete requests of a case (seeded) on a reference block.
func (d *driver) concretise(c *Case, ref *shx.Ref) []shx.Req {
	rng := seeded(d.seed, "req/"+c.ID)
	e := 2 * ref.W
	switch c.Type {
	case "samples":
		n := len(c.Items)
		if len(c.Bs) > n {
			n = len(c.Bs)
		}
		if n > e*e {
			n = e * e
		}
		perm := rng.Perm(e * e)
		out := make([]shx.Req, n)
		for i := range out {
			out[i] = shx.Req{Type: "sample", Row: perm[i] / e, Col: perm[i] % e}
		}
		return out
	case "row":
		return []shx.Req{{Type: "row", Row: rng.Intn(e)}}
	case "eds":
		return []shx.Req{{Type: "eds"}}
	case "nd":
		ns := ref.PresentNamespaces()
		return []shx.Req{{Type: "nd", Ns: ns[rng.Intn(len(ns))]}}
	case "range":
		n := ref.W * ref.W
		var cands []shx.Req
		for f := 0; f < n; f++ {
			for t := f + 1; t <= n; t++ {
				if !ref.SingleNamespace(f, t) || ref.NsIdx[f] < 0 {
					continue
				}
				rows := (t-1)/ref.W - f/ref.W + 1
				if c.RangeRows == 1 && rows != 1 || c.RangeRows == 2 && rows < 2 {
					continue
				}
				cands = append(cands, shx.Req{Type: "range", From: f, To: t})
			}
		}
		if len(cands) == 0 {
			return []shx.Req{{Type: "range", From: 0, To: 1}}
		}
		return []shx.Req{cands[rng.Intn(len(cands))]}
	}
	bail("case %s: unknown type %q", c.ID, c.Type)
	return nil
}

// buildAnswer makes the concrete bytes of one scripted answer for request q.
func (d *driver) buildAnswer(c *Case, ref *shx.Ref, q shx.Req, spec string, pos int) (answer, error) {
	kind, variant := splitKind(spec)
	rng := seeded(d.seed, fmt.Sprintf("ans/%s/%s/%d/%s", c.ID, q, pos, spec))
	if variant < 0 {
		variant = rng.Intn(3)
	}
	a := answer{Kind: kind, Label: kind}
	if !payloadKinds[kind] {
		return a, nil
	}
	honest, err := ref.Honest(q)
	if err != nil {
		return a, fmt.Errorf("honest payload for %s: %w", q, err)
	}
	switch kind {
	case "correct":
		a.Payload = honest
	case "other":
		if q.Type == "eds" {
			other := d.refs[ref.W][2]
			if other.Roots.Hash() != nil && string(other.Roots.Hash()) == string(ref.Roots.Hash()) {
				other = d.refs[ref.W][0]
			}
			a.Payload, err = other.Honest(q)
			a.Label = "other/another-square"
			return a, err
		}
		oq, ok := ref.Other(q, rng)
		if q.Type == "range" && variant >= 0 {
			// variant 1: an answer inside one row, variant 2: an answer that spans rows (it carries a
			// last-row proof, which a later one-row answer does not overwrite)
			for try := 0; try < 200 && ok; try++ {
				rows := (oq.To-1)/ref.W - oq.From/ref.W + 1
				if variant%3 == 0 || variant%3 == 1 && rows == 1 || variant%3 == 2 && rows >= 2 && (oq.To-1)%ref.W != ref.W-1 {
					break
				}
				oq, ok = ref.Other(q, rng)
			}
		}
		if !ok {
			// nothing else of that type in this block: fall back to a bit flip
			a.Payload, a.Label = shx.Tamper("garble", 0, q.Type, honest, rng)
			return a, nil
		}
		a.Payload, err = ref.Honest(oq)
		a.Label = "other/" + oq.String()
		return a, err
	default:
		a.Payload, a.Label = shx.Tamper(kind, variant, q.Type, honest, rng)
	}
	return a, nil
}

func classOfErr(o *Outcome, err error) {
	if err == nil {
		return
	}
	o.Err = err.Error()
	if len(o.Err) > 400 {
		o.Err = o.Err[:400]
	}
	o.IsNF = errors.Is(err, shwap.ErrNotFound)
	o.IsBadRsp = errors.Is(err, shrex.ErrInvalidResponse)
	o.IsVerify = errors.Is(err, shwap.ErrFailedVerification)
}

func (d *driver) runCase(c Case) Outcome {
	o, _, _ := d.runCaseFull(c)
	return o
}

// runCaseFull drives the real getter(s) through one case and classifies what came back with the
// oracle. It also returns the script keys of the items and the state of the caller's context at return.
func (d *driver) runCaseFull(c Case) (out Outcome, keys []string, ctxState string) {
	t := d.t
	ctxState = "live"
	w := c.W
	if w == 0 {
		w = 2
	}
	base := d.refs[w][0]
	if c.Type == "range" {
		base = d.refs[w][1] // one namespace everywhere: every range is a well-formed request
	}
	height := d.height.Add(1)
	ref := base.WithHeight(t, height)
	reqs := d.concretise(&c, ref)
	hn := d.hn
	if c.Blacklisting {
		hn = d.hnBL
	}
	out = Outcome{Items: make([]string, len(reqs))}
	for _, q := range reqs {
		out.Reqs = append(out.Reqs, q.String())
	}

	// ---- the script the hostile peers play
	sc := &script{ref: ref, queue: map[string][]answer{}, served: map[string][]string{}, silent: map[string]bool{},
		release: make(chan struct{}), t0: time.Now()}
	succeeds := map[string]map[int]bool{} // key -> index of answers predicted to be accepted
	keys = make([]string, len(reqs))
	for i, q := range reqs {
		key := ""
		if q.Type == "sample" {
			key = fmt.Sprintf("%d,%d", q.Row, q.Col)
		}
		keys[i] = key
		succeeds[key] = map[int]bool{}
		if i < len(c.Items) {
			for pos, spec := range c.Items[i] {
				a, err := d.buildAnswer(&c, ref, q, spec, pos)
				if err != nil {
					bail("case %s: %v", c.ID, err)
				}
				if payloadKinds[a.Kind] && ref.DecodeAndCheck(q, a.Payload) == nil {
					succeeds[key][pos] = true
				}
				if a.Kind != "correct" && payloadKinds[a.Kind] {
					if h, err := ref.Honest(q); err == nil && bytes.Equal(h, a.Payload) {
						// degenerate square (e.g. width 1: every cell equals the only share): the "other"
						// position's bytes ARE the honest answer
						a.Kind, a.Label = "correct", a.Label+"=honest"
					} else if succeeds[key][pos] && (a.Kind == "other" || a.Kind == "emptyok" || (a.Kind == "trunc" && q.Type != "eds")) {
						// not a forgery after all: a client that receives exactly these bytes for this request
						// ends up with verified, committed data (e.g. the fall-back bit flip hit a field the
						// decoder ignores). The specification only lets ext / garble / eds-trunc decode well.
						a.Kind, a.Label = "correct", a.Label+"=valid"
					}
				}
				sc.queue[key] = append(sc.queue[key], a)
			}
		}
	}
	hn.scripts.Store(height, sc)
	defer hn.scripts.Delete(height)
	defer close(sc.release)

	// ---- the getter chain
	var chain []shwap.Getter
	var fx *fakeExchange
	usesShrex := false
	for _, g := range c.Chain {
		switch g {
		case "shrex":
			usesShrex = true
			full := hn.newManager(t, "full", c.Blacklisting)
			arch := hn.newManager(t, "archival", c.Blacklisting)
			sg := shrex_getter.NewGetter(hn.shrex, full, arch, availability.RequestWindow)
			if c.AttemptTimeoutMs > 0 {
				sg.VerifSetMinRequestTimeout(time.Duration(c.AttemptTimeoutMs) * time.Millisecond)
			}
			if err := sg.Start(context.Background()); err != nil {
				bail("shrex getter start: %v", err)
			}
			defer sg.Stop(context.Background()) //nolint:errcheck
			chain = append(chain, sg)
		case "bitswap":
			fx = newFakeExchange(d, &c, ref, reqs)
			bg := bitswap.NewGetter(fx, d.blockStore(c.BlockStore), availability.RequestWindow)
			bg.Start()
			defer bg.Stop()
			chain = append(chain, bg)
		case "store":
			if c.StoreHas {
				d.stMu.Lock()
				err := d.st.PutODSQ4(context.Background(), ref.Roots, height, ref.EDS)
				d.stMu.Unlock()
				if err != nil {
					bail("store put: %v", err)
				}
			}
			chain = append(chain, store.NewGetter(d.st))
		default:
			bail("case %s: unknown getter %q", c.ID, g)
		}
	}
	var getter shwap.Getter
	if len(chain) == 1 {
		getter = chain[0]
	} else {
		getter = getters.NewCascadeGetter(chain)
	}

	// ---- the caller's context
	var ctx context.Context
	var mctx *manualCtx
	var fired, heldAll, fallback atomic.Bool
	if strings.HasPrefix(c.CtxAt, "wall:") {
		ms, _ := strconv.Atoi(strings.TrimPrefix(c.CtxAt, "wall:"))
		var cancel context.CancelFunc
		if c.Ctx == "cancelled" {
			ctx, cancel = context.WithCancel(context.Background())
			tm := time.AfterFunc(time.Duration(ms)*time.Millisecond, cancel)
			defer tm.Stop()
		} else {
			ctx, cancel = context.WithTimeout(context.Background(), time.Duration(ms)*time.Millisecond)
		}
		defer cancel()
	} else {
		mctx = newManualCtx()
		ctx = mctx
		cause := c.Ctx
		if cause == "" {
			cause = "deadline" // only used to end a call that did not finish by itself
		}
		if c.CtxAt == "start" {
			mctx.end(cause)
			fired.Store(true)
		}
		// quiescence trigger: every item is waiting on a silent peer, or was just given an answer
		// that a client accepts (then a short grace lets it finish)
		var trigMu sync.Mutex
		check := func() {
			trigMu.Lock()
			defer trigMu.Unlock()
			if fired.Load() {
				return
			}
			served, silent, _ := sc.snapshot()
			grace, held := false, 0
			for _, k := range keys {
				switch {
				case silent[k]:
					held++
				case len(served[k]) > 0 && succeeds[k][len(served[k])-1]:
					grace = true
				default:
					return
				}
			}
			if held == 0 {
				return // everything is about to succeed: the call ends by itself
			}
			fired.Store(true)
			heldAll.Store(!grace)
			if grace {
				time.AfterFunc(150*time.Millisecond, func() { mctx.end(cause) })
			} else {
				mctx.end(cause)
			}
		}
		if usesShrex {
			sc.onEvent = check
		}
		if fx != nil {
			fx.onQuiet = func() {
				if !usesShrex && !fired.Swap(true) {
					heldAll.Store(true)
					mctx.end(cause)
				}
			}
		}
	}
	// safety net: a manual context that nobody ended (e.g. the getter stopped asking) ends after 20 s
	if mctx != nil {
		tm := time.AfterFunc(20*time.Second, func() {
			if !fired.Swap(true) {
				fallback.Store(true)
				mctx.end("deadline")
			}
		})
		defer tm.Stop()
	}

	// ---- the call, and the oracle on whatever came back
	res := doCall(getter, ctx, &c, ref, reqs)
	out.OK, out.Err, out.Items, out.Why, out.Panic, out.Hung, out.Millis = res.OK, res.Err, res.Items, res.Why, res.Panic, res.Hung, res.Millis
	out.IsNF, out.IsBadRsp, out.IsVerify = res.IsNF, res.IsBadRsp, res.IsVerify
	out.HeldAll, out.Fallback = heldAll.Load(), fallback.Load()
	out.Served, _, _ = sc.snapshot()
	sc.mu.Lock()
	out.ServedAt = map[string][]int64{}
	for k, v := range sc.at {
		out.ServedAt[k] = append([]int64(nil), v...)
	}
	sc.mu.Unlock()
	if fx != nil {
		out.BsServed = fx.servedSnapshot()
	}
	switch ctx.Err() {
	case context.DeadlineExceeded:
		ctxState = "deadline"
	case context.Canceled:
		ctxState = "cancelled"
	}
	return
}

// runOverlap: Overlap calls of the bitswap getter for the same identifiers, overlapping in time: each
// later call starts once the previous one has handed its want list to the exchange. The exchange then
// offers every call the scripted candidates; if something stays undelivered the context ends when all
// calls are waiting. Every call is judged on its own.
func (d *driver) runOverlap(c Case) (outs []Outcome, ctxState string) {
	t := d.t
	w := c.W
	if w == 0 {
		w = 2
	}
	base := d.refs[w][0]
	if c.Type == "range" {
		base = d.refs[w][1]
	}
	height := d.height.Add(1)
	ref := base.WithHeight(t, height)
	reqs := d.concretise(&c, ref)
	fx := newFakeExchange(d, &c, ref, reqs)
	fx.overlap = true
	fx.entered = make(chan int, 16)
	fx.gate = make(chan struct{})
	bg := bitswap.NewGetter(fx, d.blockStore(c.BlockStore), availability.RequestWindow)
	bg.Start()
	defer bg.Stop()
	mctx := newManualCtx()
	var quiet, finished atomic.Int32
	fx.onQuiet = func() { quiet.Add(1) }
	outs = make([]Outcome, c.Overlap)
	var wg sync.WaitGroup
	for k := 0; k < c.Overlap; k++ {
		wg.Add(1)
		go func(k int) {
			defer wg.Done()
			outs[k] = doCall(bg, mctx, &c, ref, reqs)
			finished.Add(1)
		}(k)
		select {
		case <-fx.entered:
		case <-time.After(30 * time.Second):
			bail("case %s: call %d never reached the exchange", c.ID, k)
		}
		if k == 0 && len(c.Bs1) > 0 {
			first := map[string][]string{}
			for i, o := range c.Bs1 {
				first[fmt.Sprint(i)] = o
			}
			fx.distributeRound(first, 1)
		}
	}
	close(fx.gate)
	ctxState = "live"
	// no wall clock: the context ends when every call has either returned or is waiting for blocks
	// that will not come
	for t0 := time.Now(); ; time.Sleep(5 * time.Millisecond) {
		f, q := int(finished.Load()), int(quiet.Load())
		if f >= c.Overlap {
			break
		}
		if f+q >= c.Overlap || time.Since(t0) > 60*time.Second {
			cause := c.Ctx
			if cause == "" {
				cause = "deadline"
			}
			mctx.end(cause)
			ctxState = cause
			break
		}
	}
	wg.Wait()
	for k := range outs {
		outs[k].BsServed = fx.servedSnapshot()
		outs[k].Reqs = nil
		for _, q := range reqs {
			outs[k].Reqs = append(outs[k].Reqs, q.String())
		}
	}
	return
}

// doCall performs one Get* call on the getter under a watchdog and classifies every item of what came
// back -- success or not -- with the oracle: good (verifies for the requested position and equals the
// committed data), empty, or bad.
func doCall(getter shwap.Getter, ctx context.Context, c *Case, ref *shx.Ref, reqs []shx.Req) (out Outcome) {
	out.Items = make([]string, len(reqs))
	var (
		samples []shwap.Sample
		row     shwap.Row
		sq      *rsmt2d.ExtendedDataSquare
		nd      shwap.NamespaceData
		rg      shwap.RangeNamespaceData
		err     error
	)
	t0 := time.Now()
	returned, dump := vh.WithWatchdog(90*time.Second, func() {
		p, val := vh.Recover(func() {
			switch c.Type {
			case "samples":
				coords := make([]shwap.SampleCoords, len(reqs))
				for i, q := range reqs {
					coords[i] = shwap.SampleCoords{Row: q.Row, Col: q.Col}
				}
				samples, err = getter.GetSamples(ctx, ref.Header, coords)
			case "row":
				row, err = getter.GetRow(ctx, ref.Header, reqs[0].Row)
			case "eds":
				sq, err = getter.GetEDS(ctx, ref.Header)
			case "nd":
				nd, err = getter.GetNamespaceData(ctx, ref.Header, shx.NsOf(reqs[0].Ns))
			case "range":
				rg, err = getter.GetRangeNamespaceData(ctx, ref.Header, reqs[0].From, reqs[0].To)
			}
		})
		if p {
			out.Panic = val
		}
	})
	out.Millis = time.Since(t0).Milliseconds()
	if !returned {
		out.Hung = true
		out.Why = append(out.Why, "goroutines:\n"+dump[:min(len(dump), 6000)])
		return
	}
	if out.Panic != "" {
		return
	}
	out.OK = err == nil
	classOfErr(&out, err)
	class := func(i int, empty bool, check func() error) {
		if empty {
			out.Items[i] = "empty"
			return
		}
		if e := check(); e != nil {
			out.Items[i] = "bad"
			out.Why = append(out.Why, fmt.Sprintf("item %d (%s): %v", i, reqs[i], e))
			return
		}
		out.Items[i] = "good"
	}
	switch c.Type {
	case "samples":
		for i := range reqs {
			if i >= len(samples) {
				out.Items[i] = "empty"
				continue
			}
			s := samples[i]
			class(i, s.IsEmpty(), func() error {
				return ref.CheckSample(s, shwap.SampleCoords{Row: reqs[i].Row, Col: reqs[i].Col})
			})
		}
		if len(samples) > len(reqs) {
			out.Items = append(out.Items, "bad")
			out.Why = append(out.Why, fmt.Sprintf("%d samples for %d coordinates", len(samples), len(reqs)))
		}
	case "row":
		class(0, row.IsEmpty(), func() error { return ref.CheckRow(row, reqs[0].Row) })
	case "eds":
		class(0, sq == nil, func() error { return ref.CheckEDS(sq) })
		// A value a getter handed back belongs to the caller: the squares returned (and judged good) by EARLIER
		// calls must still equal their blocks after this call -- a response buffer recycled for the next request
		// (honest or hostile) would overwrite them. The last few are kept and compared byte for byte again.
		heldMu.Lock()
		kept := heldEDS[:0]
		for _, h := range heldEDS {
			if e := h.ref.CheckEDS(h.sq); e != nil {
				out.Items = append(out.Items, "bad")
				out.Why = append(out.Why, "a square returned by an EARLIER GetEDS call (judged good then) no longer equals its block after this call: "+e.Error())
				continue
			}
			kept = append(kept, h)
		}
		heldEDS = kept
		if out.Items[0] == "good" {
			heldEDS = append(heldEDS, heldSquare{sq, ref})
			if len(heldEDS) > 6 {
				heldEDS = heldEDS[1:]
			}
		}
		heldMu.Unlock()
	case "nd":
		class(0, len(nd) == 0, func() error { return ref.CheckND(nd, shx.NsOf(reqs[0].Ns)) })
	case "range":
		class(0, rg.IsEmpty(), func() error { return ref.CheckRange(rg, reqs[0].From, reqs[0].To, true) })
	}
	return
}

type heldSquare struct {
	sq  *rsmt2d.ExtendedDataSquare
	ref *shx.Ref
}

var (
	heldMu  sync.Mutex
	heldEDS []heldSquare
)

func sortedKeys(m map[string][]string) []string {
	ks := make([]string, 0, len(m))
	for k := range m {
		ks = append(ks, k)
	}
	sort.Strings(ks)
	return ks
}
