package getter

import (
	"bytes"
	"context"
	"fmt"
	"sync"

	"github.com/ipfs/boxo/blockstore"
	"github.com/ipfs/boxo/exchange"
	blocks "github.com/ipfs/go-block-format"
	"github.com/ipfs/go-cid"
	"github.com/ipfs/go-datastore"
	ds_sync "github.com/ipfs/go-datastore/sync"

	"github.com/celestiaorg/celestia-node/share/eds"
	"github.com/celestiaorg/celestia-node/share/shwap"
	"github.com/celestiaorg/celestia-node/share/shwap/p2p/bitswap"
	bitswappb "github.com/celestiaorg/celestia-node/share/shwap/p2p/bitswap/pb"
	"github.com/celestiaorg/celestia-node/store"

	"verifharness/shx"
)

// refGetter serves the in-memory reference square as the block behind one height: the honest
// Bitswap server side (bitswap.Blockstore over it produces the honest block bytes).
type refGetter struct{ ref *shx.Ref }

func (g refGetter) GetByHeight(_ context.Context, h uint64) (eds.AccessorStreamer, error) {
	if h != g.ref.Height {
		return nil, store.ErrNotFound
	}
	return g.ref.Acc, nil
}

func (g refGetter) HasByHeight(_ context.Context, h uint64) (bool, error) {
	return h == g.ref.Height, nil
}

// fakeExchange stands where the Bitswap client stands. For every wanted CID it walks the scripted
// sequence of candidate blocks and treats each exactly as the client treats an incoming block: the
// bytes are hashed under the wanted CID's prefix -- which runs the multihash registered by the
// repository, i.e. the verifying unmarshal function -- and the block is handed to the requester only
// if that hash equals the wanted CID.
type fakeExchange struct {
	d       *driver
	c       *Case
	ref     *shx.Ref
	honest  *bitswap.Blockstore
	mu      sync.Mutex
	scripts map[string][]string // by block index (as string) in request order
	order   []cid.Cid           // first GetBlocks call's CIDs define the block indices
	served  map[string][]string
	onQuiet func() // every wanted block was either delivered or has run out of offers
	notify  int
	// overlap mode: several calls ask for the same CIDs at the same time. Offers are then scripted per
	// CID (taken from the first call's block order), every call's GetBlocks waits at the gate until the
	// driver has seen all calls enter, and no call is handed a block before every call has hashed its
	// candidates (the registry of verifying unmarshal functions belongs to the first requester).
	overlap    bool
	entered    chan int       // one tick per GetBlocks call
	gate       chan struct{}  // closed by the driver
	byCID      map[string]int // CID -> block index of the first call
	calls      []*overlapCall
	distribute sync.Once
}

func newFakeExchange(d *driver, c *Case, ref *shx.Ref, _ []shx.Req) *fakeExchange {
	fx := &fakeExchange{d: d, c: c, ref: ref, honest: &bitswap.Blockstore{Getter: refGetter{ref}},
		scripts: map[string][]string{}, served: map[string][]string{}}
	for i, s := range c.Bs {
		fx.scripts[fmt.Sprint(i)] = s
	}
	return fx
}

func (fx *fakeExchange) servedSnapshot() map[string][]string {
	fx.mu.Lock()
	defer fx.mu.Unlock()
	out := map[string][]string{}
	for k, v := range fx.served {
		out[k] = append([]string(nil), v...)
	}
	return out
}

func (fx *fakeExchange) GetBlock(ctx context.Context, c cid.Cid) (blocks.Block, error) {
	ch, err := fx.GetBlocks(ctx, []cid.Cid{c})
	if err != nil {
		return nil, err
	}
	select {
	case b, ok := <-ch:
		if !ok {
			return nil, ctx.Err()
		}
		return b, nil
	case <-ctx.Done():
		return nil, ctx.Err()
	}
}

func (fx *fakeExchange) NewSession(context.Context) exchange.Fetcher { return fx }
func (fx *fakeExchange) Close() error                                { return nil }
func (fx *fakeExchange) NotifyNewBlocks(context.Context, ...blocks.Block) error {
	fx.mu.Lock()
	fx.notify++
	fx.mu.Unlock()
	return nil
}

// candidate builds the bytes of one offered block of the given kind for the wanted CID.
func (fx *fakeExchange) candidate(want cid.Cid, idx int, pos int, spec string) ([]byte, string) {
	kind, variant := splitKind(spec)
	rng := seeded(fx.d.seed, fmt.Sprintf("bs/%s/%d/%d/%s", fx.c.ID, idx, pos, spec))
	if variant < 0 {
		variant = rng.Intn(3)
		if pos%10 == 0 {
			// the first candidate of a sequence is always one that DECODES and fails verification (a bit
			// flipped inside a share; another position's container under the wanted CID): what a later
			// candidate for the same CID meets afterwards is the interesting part
			if kind == "garble" {
				variant = 0
			} else if kind == "other" {
				variant = 1
			}
		}
	}
	hb, err := fx.honest.Get(context.Background(), want)
	if err != nil {
		fx.d.rep.Inconclusivef("case %s: cannot build the honest bitswap block: %v", fx.c.ID, err)
		return nil, "none"
	}
	honest := hb.RawData()
	switch kind {
	case "correct":
		return honest, "correct"
	case "other":
		// the honest block of another position of the same block type
		oc, ok := fx.otherCID(want, rng)
		for try := 0; ok && fx.wanted(oc) && try < 50; try++ {
			// a position that this very call also asks for would be a correct answer for that block
			oc, ok = fx.otherCID(want, rng)
		}
		if ok && fx.wanted(oc) {
			ok = false
		}
		if !ok {
			p, l := shx.Tamper("garble", 0, "bs", honest, rng)
			return p, l
		}
		ob, err := fx.honest.Get(context.Background(), oc)
		if err != nil {
			// the block has no other position of that type (e.g. the namespace lives in one row)
			p, l := shx.Tamper("garble", 0, "bs", honest, rng)
			return p, l
		}
		if variant%2 == 0 {
			return ob.RawData(), "other/as-is"
		}
		// the other position's container re-wrapped under the wanted CID
		var pbb bitswappb.Block
		if err := pbb.Unmarshal(ob.RawData()); err != nil {
			return ob.RawData(), "other/as-is"
		}
		pbb.Cid = want.Bytes()
		data, err := pbb.Marshal()
		if err != nil {
			return ob.RawData(), "other/as-is"
		}
		return data, "other/rewrapped"
	case "trunc", "ext", "garble", "emptyok":
		p, l := shx.Tamper(kind, variant, "bs", honest, rng)
		return p, l
	}
	return nil, "none"
}

func (fx *fakeExchange) wanted(c cid.Cid) bool {
	fx.mu.Lock()
	defer fx.mu.Unlock()
	for _, w := range fx.order {
		if w.Equals(c) {
			return true
		}
	}
	return false
}

// otherCID derives the CID of a different position for the same block type.
func (fx *fakeExchange) otherCID(want cid.Cid, rng interface{ Intn(int) int }) (cid.Cid, bool) {
	blk, err := bitswap.EmptyBlock(want)
	if err != nil {
		return cid.Undef, false
	}
	e := 2 * fx.ref.W
	switch b := blk.(type) {
	case *bitswap.SampleBlock:
		r, c := (b.ID.RowIndex+1+rng.Intn(e-1))%e, (b.ID.ShareIndex+rng.Intn(e))%e
		o, err := bitswap.NewEmptySampleBlock(fx.ref.Height, shwap.SampleCoords{Row: r, Col: c}, e)
		if err != nil {
			return cid.Undef, false
		}
		return o.CID(), true
	case *bitswap.RowBlock:
		o, err := bitswap.NewEmptyRowBlock(fx.ref.Height, (b.ID.RowIndex+1+rng.Intn(e-1))%e, e)
		if err != nil {
			return cid.Undef, false
		}
		return o.CID(), true
	case *bitswap.RowNamespaceDataBlock:
		o, err := bitswap.NewEmptyRowNamespaceDataBlock(fx.ref.Height, (b.ID.RowIndex+1)%fx.ref.W, b.ID.DataNamespace, e)
		if err != nil || o.CID().Equals(want) {
			return cid.Undef, false
		}
		return o.CID(), true
	}
	return cid.Undef, false
}

func (fx *fakeExchange) GetBlocks(ctx context.Context, cids []cid.Cid) (<-chan blocks.Block, error) {
	if fx.overlap {
		return fx.getBlocksOverlap(ctx, cids)
	}
	fx.mu.Lock()
	base := len(fx.order)
	fx.order = append(fx.order, cids...)
	fx.mu.Unlock()
	ch := make(chan blocks.Block, len(cids))
	go func() {
		defer close(ch)
		delivered := 0
		for i, want := range cids {
			idx := fmt.Sprint(base + i)
			fx.mu.Lock()
			offers := fx.scripts[idx]
			fx.mu.Unlock()
			for pos, spec := range offers {
				if ctx.Err() != nil {
					return
				}
				kind, _ := splitKind(spec)
				if kind == "silent" || kind == "none" {
					break
				}
				data, label := fx.candidate(want, base+i, pos, spec)
				if hb, err := fx.honest.Get(context.Background(), want); err == nil && bytes.Equal(hb.RawData(), data) {
					label = "correct" // degenerate square: the other position's block is byte-identical
				}
				fx.mu.Lock()
				fx.served[idx] = append(fx.served[idx], label)
				fx.mu.Unlock()
				// what the Bitswap client does with an incoming block: recompute the CID from the bytes
				got, err := want.Prefix().Sum(data)
				if err != nil || !got.Equals(want) {
					continue // dropped: not the block that was asked for
				}
				if k := kindOfLabel(label); k == "other" || k == "trunc" {
					// accepted by the verifying hash: not a forgery after all (degenerate square)
					fx.mu.Lock()
					fx.served[idx][len(fx.served[idx])-1] = "correct"
					fx.mu.Unlock()
				}
				blk, err := blocks.NewBlockWithCid(data, want)
				if err != nil {
					continue
				}
				select {
				case ch <- blk:
					delivered++
				case <-ctx.Done():
					return
				}
				break
			}
		}
		if delivered == len(cids) {
			return // everything arrived: the channel closes like a finished session request
		}
		if fx.onQuiet != nil {
			fx.onQuiet()
		}
		<-ctx.Done() // GetBlocks closes the channel on context cancellation
	}()
	return ch, nil
}

// getBlocksOverlap: see the overlap fields. An empty want list yields a closed channel at once, as a
// Bitswap session does. Like the Bitswap client, the exchange hashes every incoming candidate ONCE
// (whoever registered the unmarshal function for that CID gets populated by it) and hands the first
// candidate that passes to every call that wants the CID.
func (fx *fakeExchange) getBlocksOverlap(ctx context.Context, cids []cid.Cid) (<-chan blocks.Block, error) {
	ch := make(chan blocks.Block, len(cids)+1)
	call := &overlapCall{cids: cids, ch: ch, got: map[string]bool{}}
	fx.mu.Lock()
	if fx.byCID == nil {
		fx.byCID = map[string]int{}
		for i, c := range cids {
			fx.byCID[c.KeyString()] = i
		}
		fx.order = append(fx.order, cids...)
	}
	fx.calls = append(fx.calls, call)
	fx.mu.Unlock()
	fx.entered <- len(cids)
	if len(cids) == 0 {
		close(ch)
		return ch, nil
	}
	go func() {
		defer close(ch)
		select {
		case <-fx.gate:
		case <-ctx.Done():
			return
		}
		fx.distribute.Do(fx.distributeOnce)
		fx.mu.Lock()
		complete := len(call.got) == len(cids)
		fx.mu.Unlock()
		if complete {
			return
		}
		if fx.onQuiet != nil {
			fx.onQuiet()
		}
		<-ctx.Done()
	}()
	return ch, nil
}

type overlapCall struct {
	cids []cid.Cid
	ch   chan blocks.Block
	got  map[string]bool
}

func (fx *fakeExchange) distributeOnce() { fx.distributeRound(fx.scripts, 0) }

// distributeRound plays one round of incoming messages: per CID the scripted candidates in order, each
// hashed once; the first one that passes is handed to every call that wants the CID and has not got it.
func (fx *fakeExchange) distributeRound(scripts map[string][]string, round int) {
	fx.mu.Lock()
	order := append([]cid.Cid(nil), fx.order...)
	calls := append([]*overlapCall(nil), fx.calls...)
	fx.mu.Unlock()
	for i, want := range order {
		idx := fmt.Sprint(i)
		for pos, spec := range scripts[idx] {
			kind, _ := splitKind(spec)
			if kind == "silent" || kind == "none" {
				break
			}
			data, label := fx.candidate(want, i, pos+10*round, spec)
			if hb, err := fx.honest.Get(context.Background(), want); err == nil && bytes.Equal(hb.RawData(), data) {
				label = "correct"
			}
			fx.mu.Lock()
			fx.served[idx] = append(fx.served[idx], fmt.Sprintf("%s@%d", label, len(calls)))
			fx.mu.Unlock()
			// every incoming message is hashed (the client computes the CID of what it received before it
			// looks at its want list), so also the ones that come after the want was satisfied run the
			// registered unmarshal function
			got, err := want.Prefix().Sum(data)
			if err != nil || !got.Equals(want) {
				continue
			}
			blk, err := blocks.NewBlockWithCid(data, want)
			if err != nil {
				continue
			}
			for _, c := range calls {
				for _, w := range c.cids {
					fx.mu.Lock()
					had := c.got[want.KeyString()]
					fx.mu.Unlock()
					if w.Equals(want) && !had {
						fx.mu.Lock()
						c.got[want.KeyString()] = true
						fx.mu.Unlock()
						c.ch <- blk
					}
				}
			}
		}
	}
}

// blockStore builds the block store a node type wires the bitswap getter to.
func (d *driver) blockStore(kind string) blockstore.Blockstore {
	switch kind {
	case "", "datastore":
		// light node: blockstoreFromDatastore
		bs, _ := bitswap.NewBlockstoreWithMetrics(blockstore.NewBlockstore(ds_sync.MutexWrap(datastore.NewMapDatastore())))
		return bs
	case "edsstore":
		// bridge node with BlockStoreCacheSize = 0: blockstoreFromEDSStore
		bs, _ := bitswap.NewBlockstoreWithMetrics(&bitswap.Blockstore{Getter: d.st})
		return bs
	case "edsstore-cached":
		// bridge node, default configuration
		bs, _ := bitswap.NewBlockstoreWithMetrics(&bitswap.Blockstore{Getter: d.cached})
		return bs
	}
	bail("unknown block store %q", kind)
	return nil
}
